"""C06 -- leading (frequency / batch) axes are independent problems: stack == stack of slices.

Proved (Properties/C06.v): the numpy index bookkeeping that carries leading axes (ravel / unravel, reshape(-1, ...) around
per-matrix helpers, broadcast_to of singleton axes = repetition, flat ellipsis contractions = nested sums of one slice)
for every rank, and the slice law of the EM loop given per-index E- and M-steps (generic with explicit one-step
hypotheses; discharged for the index-function family and for reshape(-1, ...) pipelines).
Here, on every run:
  * predicates (independent NumPy): every distribution trainer and log_pdf (Gaussian full / diagonal / spherical, complex
    Gaussian, vMF, complex Watson, cACG incl. ComplexAngularCentralGaussianTrainer.fit, complex Bingham) and the mixture
    trainers documenting independent axes (cACGMM, cWMM, cBMM, GMM, vMFMM) on stacks of 1..3 leading axes with sizes 1..5
    and different content per slice versus the same call on each slice: parameters, log-densities, posteriors to 1e-9
    relative (eigenvectors only through U diag(l) U^H and projectors); an initial affiliation with singleton leading
    axes versus the repeated one;
  * correspondence inside Coq: the bookkeeping functions against numpy on random shapes of rank 1..5; the single-slice
    model of Model/Trainers.v fed with the data of one leading index against what the implementation returned for that
    index when called on the whole stack."""
import numpy as np
from harness import core, mm
from harness.core import Case

PID = 'C06'
REQUIRES = ['Run.C06']
RULE = ('stacks of 1..3 leading axes, sizes 1..5 each (product capped for the slow trainers), different random content per '
        'slice, all covariance types / saliency / weight tying inside a slice / cACG options, 1..3 EM iterations; '
        'non-trivial: more than one slice and the slices differ; distinct by SHA-1 of entry + inputs')
NOT_PROVED = ('that each concrete pb_bss routine is a per-leading-index routine is established by the stack-vs-slices '
              'comparison (testing) and the in-Coq slice correspondence, not by a theorem about the Python code; binary64 '
              'rounding differences between a stacked and a sliced reduction are bounded by the tolerance only empirically')
ASSUMPTIONS = ['tolerance 1e-9 relative to the largest magnitude of the compared tensor (1e-7 for quantities passing through '
               'the Bingham least-squares solver or the Watson spline)', 'tiny = np.finfo(float64).tiny']

RT = 1e-9
EXPLICIT = (AssertionError, ValueError, NotImplementedError, np.linalg.LinAlgError, FloatingPointError)
crandn = mm.crandn


def lead_shape(rng, cap=125):
    for _ in range(50):
        lead = tuple(int(v) for v in rng.integers(1, 6, int(rng.integers(1, 4))))
        if int(np.prod(lead)) <= cap:
            return lead
    return (min(cap, 3),)


def close(a, b, rt=RT):
    """None or text: a (stack at slice) vs b (slice alone)"""
    a, b = np.asarray(a), np.asarray(b)
    if a.shape != b.shape:
        try:
            a, b = np.broadcast_arrays(a, b)
        except ValueError:
            return 'shape %s vs %s' % (a.shape, b.shape)
    if not (np.all(np.isfinite(a)) and np.all(np.isfinite(b))):
        if np.array_equal(np.isnan(a), np.isnan(b)) and np.array_equal(a[~np.isnan(a)], b[~np.isnan(b)]):
            return None
        return 'non-finite values'
    if a.size == 0:
        return None
    d = float(np.abs(a - b).max())
    sc = max(float(np.abs(b).max()), float(np.abs(a).max()), 1e-300)
    if d > rt * sc:
        return 'max abs diff %.3g at scale %.3g (relative %.3g)' % (d, sc, d / sc)
    return None


def take(arr, b, lead):
    arr = np.asarray(arr)
    L = len(lead)
    if arr.ndim >= L and all(s in (1, t) for s, t in zip(arr.shape[:L], lead)) and arr.shape[:L] != ():
        if arr.shape[:L] == tuple(lead):
            return arr[b]
        return np.broadcast_to(arr, tuple(lead) + arr.shape[L:])[b]
    return arr


def herm_rec(U, l):
    return np.einsum('...wx,...x,...zx->...wz', U, l, U.conj())


def observables(kind, m):
    """well-defined observables of a fitted model (never eigenvectors up to phase)"""
    if kind == 'gaussian':
        return {'mean': m.mean, 'covariance': m.covariance, 'log_det_precision_cholesky': m.log_det_precision_cholesky}
    if kind == 'ccsg':
        return {'covariance': m.covariance}
    if kind == 'vmf':
        return {'mean': m.mean, 'concentration': m.concentration}
    if kind == 'watson':
        return {'mode_projector': m.mode[..., :, None] * m.mode[..., None, :].conj(), 'concentration': m.concentration}
    if kind == 'cacg':
        return {'eigenvalues': m.covariance_eigenvalues, 'covariance': herm_rec(m.covariance_eigenvectors, m.covariance_eigenvalues)}
    if kind == 'bingham':
        return {'eigenvalues': m.covariance_eigenvalues, 'covariance': herm_rec(m.covariance_eigenvectors, m.covariance_eigenvalues)}
    raise KeyError(kind)


SOLVER_RT = {'watson': 1e-7, 'bingham': 1e-6}
COMP = {'cacgmm': ('cacg', 'cacg'), 'cwmm': ('complex_watson', 'watson'), 'cbmm': ('complex_bingham', 'bingham'),
        'gmm': ('gaussian', 'gaussian'), 'vmfmm': ('vmf', 'vmf')}


def compare_models(kind, stack, slices, lead, rt=RT, what='parameter'):
    """stack: observables dict of the stacked call; slices: {b: observables dict}"""
    for b, ob in slices.items():
        for k, v in ob.items():
            if kind == 'cacg' and k == 'eigenvalues':
                # positive numbers that enter through 1/lambda and log lambda: every one matters relatively, the
                # floored ones included (a floor that depends on other slices moves log_pdf)
                a_ = np.asarray(take(stack[k], b, lead), dtype=float)
                v_ = np.asarray(v, dtype=float)
                if a_.shape != v_.shape or np.any(np.abs(np.log(a_) - np.log(v_)) > 1e-5):
                    return ('%s eigenvalues of the stack at leading index %s differ relatively from the slice run alone: %s vs %s'
                            % (what, b, a_.ravel()[:4].tolist(), v_.ravel()[:4].tolist()))
                continue
            d = close(take(stack[k], b, lead), v, rt)
            if d:
                return '%s %s of the stack at leading index %s differs from the slice run alone: %s' % (what, k, b, d)
    return None


# ----------------------------------------------------------------------------- A/B: distributions
DISTS = ['gaussian:full', 'gaussian:diagonal', 'gaussian:spherical', 'ccsg', 'vmf', 'watson', 'cacg', 'bingham']


def dist_fit(kind, y, sal, opt):
    import pb_bss.distribution as d
    from pb_bss.distribution.complex_bingham import ComplexBinghamTrainer
    if kind.startswith('gaussian'):
        return d.GaussianTrainer().fit(y, saliency=sal, covariance_type=kind.split(':')[1])
    if kind == 'ccsg':
        return d.ComplexCircularSymmetricGaussianTrainer().fit(y, saliency=sal)
    if kind == 'vmf':
        return d.VonMisesFisherTrainer().fit(y, saliency=sal, **opt)
    if kind == 'watson':
        return d.ComplexWatsonTrainer().fit(y, saliency=sal)
    if kind == 'cacg':
        return d.ComplexAngularCentralGaussianTrainer().fit(y, **opt)
    if kind == 'bingham':
        return ComplexBinghamTrainer(**opt).fit(y, saliency=sal)
    raise KeyError(kind)


def slice_model(kind, m, b, lead):
    """the stacked model restricted to leading index b (parameters sliced, derived fields recomputed by the class)"""
    import pb_bss.distribution as d
    from pb_bss.distribution.complex_bingham import ComplexBingham
    k = kind.split(':')[0]
    if k == 'gaussian':
        return type(m)(mean=m.mean[b], covariance=m.covariance[b])
    if k == 'ccsg':
        return type(m)(covariance=m.covariance[b])
    if k == 'vmf':
        return type(m)(mean=m.mean[b], concentration=m.concentration[b])
    if k == 'watson':
        return type(m)(mode=m.mode[b], concentration=m.concentration[b])
    if k == 'cacg':
        return type(m)(covariance_eigenvectors=m.covariance_eigenvectors[b], covariance_eigenvalues=m.covariance_eigenvalues[b])
    if k == 'bingham':
        return ComplexBingham(m.covariance_eigenvectors[b], m.covariance_eigenvalues[b])
    raise KeyError(kind)


def eval_dist(rp, rng=None):
    """-> fail, key, coq, raised, nontrivial"""
    rng = rng or np.random.default_rng(rp.get('coqseed', 0))
    kind = rp['dist']
    k0 = kind.split(':')[0]
    y, sal, opt = np.array(rp['y']), rp['saliency'], dict(rp['opt'])
    ye = np.array(rp['y_eval'])
    if sal is not None:
        sal = np.array(sal)
    for a in (y, sal, ye):
        if a is not None:
            a.setflags(write=False)
    lead = y.shape[:-2]
    N, D = y.shape[-2:]
    entry = kind
    rt = SOLVER_RT.get(k0, RT)
    try:
        ms = {b: dist_fit(kind, y[b], None if sal is None else sal[b], opt) for b in np.ndindex(*lead)}
    except EXPLICIT as e:
        return None, None, None, 'slice fit raised %s: %s' % (type(e).__name__, str(e)[:100]), False
    try:
        M = dist_fit(kind, y, sal, opt)
    except Exception as e:  # noqa
        return ('%s trainer raises %s on a stack with leading shape %s although every slice fits alone: %s'
                % (kind, type(e).__name__, lead, str(e)[:200])), 'raises:fit:%s' % entry, None, None, False
    fail = compare_models(k0, observables(k0, M), {b: observables(k0, m) for b, m in ms.items()}, lead, rt)
    if fail:
        return '%s trainer: %s' % (kind, fail), 'slice:fit:%s' % entry, None, None, False
    # log_pdf: stacked model on the stacked points vs the sliced model on the slice
    try:
        LP = M.log_pdf(ye)
    except Exception as e:  # noqa
        return ('%s log_pdf raises %s on a stack with leading shape %s: %s' % (kind, type(e).__name__, lead, str(e)[:200])), \
            'raises:log_pdf:%s' % entry, None, None, False
    if LP.shape != ye.shape[:-1]:
        return '%s log_pdf of the stack has shape %s, expected %s' % (kind, LP.shape, ye.shape[:-1]), 'slice:log_pdf:%s' % entry, None, None, False
    for b in np.ndindex(*lead):
        try:
            lp = slice_model(kind, M, b, lead).log_pdf(ye[b])
        except EXPLICIT as e:
            return None, None, None, 'slice log_pdf raised %s' % type(e).__name__, False
        d = close(LP[b], lp, 1e-9 if k0 != 'cacg' else 1e-8)
        if d:
            return ('%s log_pdf of the stack at leading index %s differs from log_pdf of the slice alone: %s' % (kind, b, d)), \
                'slice:log_pdf:%s' % entry, None, None, False
    nt = int(np.prod(lead)) > 1
    coq = coq_dist(rng, kind, y, sal, opt, ye, M, LP, lead)
    return None, None, coq, None, nt


def coq_ravel(rng, shape):
    idx = tuple(int(rng.integers(0, s)) for s in shape)
    k = int(np.ravel_multi_index(idx, shape))
    assert tuple(int(v) for v in np.unravel_index(k, shape)) == idx
    return 'check_ravel %s %s %d' % (core.nlist(shape), core.nlist(idx), k)


def coq_dist(rng, kind, y, sal, opt, ye, M, LP, lead):
    """model on ONE slice (Model/Trainers.v) vs the stacked result at that leading index"""
    k0 = kind.split(':')[0]
    N, D = y.shape[-2:]
    if N * D > 60:
        return coq_ravel(rng, y.shape)
    b = tuple(int(rng.integers(0, s)) for s in lead)
    tiny = core.fhex(mm.tiny_of(y))
    s = np.ones(N) if sal is None else sal[b]
    parts = [coq_ravel(rng, y.shape)]
    if k0 == 'gaussian':
        ct = {'full': 0, 'diagonal': 1, 'spherical': 2}[kind.split(':')[1]]
        parts.append('check_gauss %d %d %s %s %s %d %s %s' % (D, N, tiny, core.fmat(y[b]), core.flist(s), ct, core.flist(M.mean[b]),
                                                            core.flist(np.ravel(M.covariance[b]))))
    elif k0 == 'ccsg':
        parts.append('check_ccsg %d %d %s %s %s %s' % (D, N, tiny, core.cmat(y[b]), core.flist(s), core.clist(np.ravel(M.covariance[b]))))
    elif k0 == 'vmf':
        parts.append('check_vmf %d %d %s %s %s %s %s %s %s' % (
            D, N, tiny, core.fhex(opt.get('min_concentration', 1e-10)), core.fhex(opt.get('max_concentration', 500)),
            core.fmat(y[b]), core.flist(s), core.flist(M.mean[b]), core.fhex(M.concentration[b])))
        parts.append('check_vmf_logpdf %d %s %s %s %s %s %s' % (
            D, tiny, core.flist(M.mean[b]), core.fhex(M.concentration[b]), core.fhex(M.log_norm()[b]), core.fmat(ye[b]), core.flist(LP[b])))
    elif k0 == 'watson':
        parts.append('check_watson_logpdf %d %s %s %s %s %s' % (
            D, core.clist(M.mode[b]), core.fhex(M.concentration[b]), core.fhex(M.log_norm()[b]), core.cmat(ye[b]), core.flist(LP[b])))
    elif k0 == 'cacg':
        parts.append('check_cacg_logpdf %d %s %s %s %s %s' % (
            D, tiny, core.cmat(M.covariance_eigenvectors[b]), core.flist(M.covariance_eigenvalues[b]), core.cmat(ye[b]), core.flist(LP[b])))
        if opt.get('covariance_norm') is False and opt.get('iterations') == 1 and opt.get('eigenvalue_floor', 1) <= 1e-10:
            cov = herm_rec(M.covariance_eigenvectors[b], M.covariance_eigenvalues[b])
            parts.append('check_cacg_cov %s %d %d %s %s %s %s %s' % (
                core.cbool(opt.get('hermitize', True)), D, N, tiny, core.cmat(y[b]), core.flist(np.ones(N)), core.flist(np.ones(N)),
                core.clist(np.ravel(cov))))
    return 'allR [%s]' % '; '.join(parts)


_DOFF = [0]


def _case_dist(rng, tier, kind, force_degenerate=False, twins=False):
    k0 = kind.split(':')[0]
    lead = lead_shape(rng, cap=8 if k0 == 'bingham' else 125)
    if twins:
        lead = (2, 2) if k0 == 'bingham' else tuple(int(v) for v in rng.integers(2, 4, int(rng.integers(1, 3))))
    if force_degenerate:
        lead = tuple(int(v) for v in rng.integers(2, 4, int(rng.integers(1, 3))))
    D = int(rng.integers(2, 5)) if k0 != 'bingham' else int(rng.integers(2, 4))
    if k0 == 'gaussian' and rng.random() < 0.2:
        D = 1
    N = int(rng.integers(2 * D + 2, 2 * D + 8))
    cplx = k0 in ('ccsg', 'watson', 'cacg', 'bingham')
    off = rng.normal(size=(*lead, 1, D)) * float(rng.choice([0.0, 1.0, 3.0]))
    _DOFF[0] += 1
    if k0 == 'gaussian' and _DOFF[0] % 3 == 0 and lead:
        # slices whose means lie far apart relative to their spread (0, 1e6, 2e6, ...): a slice's result must not depend on
        # where the OTHER slices lie
        off = (np.arange(int(np.prod(lead))).reshape(*lead, 1, 1) * 1e6) * np.ones((*lead, 1, D))
    scale = rng.uniform(0.5, 2.0, size=(*lead, 1, 1))
    if cplx:
        y = (crandn(rng, (*lead, N, D)) + off) * scale
        ye = crandn(rng, (*lead, int(rng.integers(1, 5)), D))
    else:
        y = (rng.normal(size=(*lead, N, D)) + off) * scale
        ye = rng.normal(size=(*lead, int(rng.integers(1, 5)), D)) + off
    degenerate_slice = False
    if k0 == 'cacg' and lead and int(np.prod(lead)) >= 2 and (force_degenerate or rng.random() < 0.35):
        # one slice of the stack is rank deficient (all its frames lie in a (D-1)-dimensional subspace): its smallest
        # eigenvalue is floored relative to ITS OWN largest one, whatever the other slices look like
        degenerate_slice = True
        b = tuple(int(rng.integers(0, n)) for n in lead)
        basis = crandn(rng, (D - 1, D))
        y[b] = crandn(rng, (N, D - 1)) @ basis * float(rng.choice([1e-3, 1.0, 1e3]))
    if twins:
        # nearly equal slices (neighbouring bins / classes of a stationary scene): every slice is the first one with a
        # perturbation of a few 1e-6 - each must still get its OWN parameters
        b0 = (0,) * len(lead)
        for b in np.ndindex(*lead):
            if b != b0:
                y[b] = y[b0] + 3e-6 * ((crandn(rng, (N, D)) if cplx else rng.normal(size=(N, D))))
    if k0 == 'bingham':
        ye = ye / np.linalg.norm(ye, axis=-1, keepdims=True)
    sal = None
    if k0 != 'cacg' and rng.random() < 0.6:
        sal = rng.uniform(0.1, 2.0, size=(*lead, N))
        if rng.random() < 0.3:
            sal = np.floor(rng.uniform(1, 4, size=(*lead, N)))
    if twins and sal is not None:
        sal = np.broadcast_to(sal[(0,) * len(lead)], sal.shape).copy()      # the twins share the saliency as well
    opt = {}
    if k0 == 'cacg':
        opt = dict(hermitize=bool(rng.random() < 0.7), covariance_norm=['eigenvalue', 'trace', False][int(rng.integers(0, 3))],
                   eigenvalue_floor=float(rng.choice([1e-10, 1e-6])), iterations=int(rng.integers(1, 4)))
        if degenerate_slice:
            opt['iterations'] = 1          # one step: later steps divide by the floored spectrum (1e10 amplification)
            opt['covariance_norm'] = ['trace', False, 'eigenvalue'][int(rng.integers(0, 3))]
    if k0 == 'vmf' and rng.random() < 0.5:
        opt = dict(min_concentration=float(rng.choice([1e-10, 0.5])), max_concentration=float(rng.choice([500, 20, 3])))
    if k0 == 'bingham' and rng.random() < 0.3:
        opt = dict(max_concentration=500.0)
    rp = {'fn': 'dist', 'dist': kind, 'y': y, 'saliency': sal, 'opt': opt, 'y_eval': ye, 'coqseed': int(rng.integers(0, 2 ** 31))}
    fail, key, coq, raised, nt = eval_dist(rp, rng)
    name = '%s%s lead=%s N=%d D=%d saliency=%s opt=%s' % (kind, ' twins' if twins else '', lead, N, D, sal is not None, opt)
    return Case(name, coq=coq, pred_fail=fail, key=key, nontrivial=nt, digest_=core.digest(name, y, sal, ye),
                sample={'name': name, 'y': core.small(y, 3)}, replay=rp, raised=raised, kind='dist/' + kind)


# ----------------------------------------------------------------------------- C: mixture trainers
MIX = ['cacgmm', 'cwmm', 'cbmm', 'gmm', 'vmfmm']


def mix_options(rng, name, K, N, lead):
    o = {'weight_constant_axis': [(-1,), -1, [-1], -2][int(rng.integers(0, 4))]}
    if rng.random() < 0.5:
        s = rng.uniform(0.2, 2.0, size=(*lead, N))
        if rng.random() < 0.3:
            s = np.floor(rng.uniform(1, 4, size=(*lead, N)))
        o['saliency'] = s
    if name == 'cacgmm':
        o['covariance_norm'] = ['eigenvalue', 'trace', False][int(rng.integers(0, 3))]
        o['hermitize'] = bool(rng.random() < 0.8)
        o['affiliation_eps'] = float(rng.choice([0.0, 1e-10, 1e-3]))
        o['eigenvalue_floor'] = float(rng.choice([1e-10, 1e-6]))
        if rng.random() < 0.25:
            m = rng.random((*lead, K, N)) < 0.85
            m[..., 0, :] |= ~m.any(axis=-2)
            o['source_activity_mask'] = m
    if name == 'cbmm':
        o['affiliation_eps'] = float(rng.choice([0.0, 1e-10]))
    if name == 'gmm':
        o['covariance_type'] = ['full', 'diagonal', 'spherical'][int(rng.integers(0, 3))]
    if name == 'vmfmm' and rng.random() < 0.4:
        o['min_concentration'] = float(rng.choice([1e-10, 0.5]))
        o['max_concentration'] = float(rng.choice([500, 50]))
    return o


def slice_opts(opts, b):
    o = dict(opts)
    for k in ('saliency', 'source_activity_mask'):
        if o.get(k) is not None:
            o[k] = o[k][b]
    return o


def positive_axes(opts, ndim):
    """the same tying option spelled with non-negative axis numbers of an affiliation with `ndim` axes"""
    o = dict(opts)
    w = o.get('weight_constant_axis')
    conv = lambda a: int(a) + ndim if int(a) < 0 else int(a)
    if isinstance(w, (tuple, list)):
        o['weight_constant_axis'] = type(w)(conv(a) for a in w)
    elif w is not None:
        o['weight_constant_axis'] = conv(w)
    return o


def mix_obs(name, model):
    field, kind = COMP[name]
    ob = {'component.' + k: v for k, v in observables(kind, getattr(model, field)).items()}
    ob['weight'] = np.asarray(model.weight)
    return ob


def eval_mix(rp, rng=None):
    rng = rng or np.random.default_rng(rp.get('coqseed', 0))
    name = rp['model']
    y, init, opts, it = np.array(rp['y']), np.array(rp['init']), dict(rp['opts']), rp['iterations']
    for a in [y, init] + [v for v in opts.values() if isinstance(v, np.ndarray)]:
        a.setflags(write=False)
    lead = y.shape[:-2]
    K, N = init.shape[-2:]
    data = {'y': y}
    rt = {'cwmm': 1e-7, 'cbmm': 1e-6}.get(name, RT)
    try:
        sl = {}
        for b in np.ndindex(*lead):
            so = slice_opts(opts, b)
            if rp.get('positive_axes'):
                so = positive_axes(so, 2)
            m, _ = mm.fit(name, {'y': y[b]}, init[b], iterations=it, **so)
            sl[b] = m
    except EXPLICIT as e:
        return None, None, None, 'slice fit raised %s: %s' % (type(e).__name__, str(e)[:100]), False
    try:
        M, trace = mm.fit(name, data, init, iterations=it, **(positive_axes(opts, init.ndim) if rp.get('positive_axes') else opts))
    except Exception as e:  # noqa
        return ('%s trainer raises %s on a stack with leading shape %s although every slice fits alone: %s'
                % (name, type(e).__name__, lead, str(e)[:200])), 'raises:fit:%s' % name, None, None, False
    fail = compare_models(name, mix_obs(name, M), {b: mix_obs(name, m) for b, m in sl.items()}, lead, rt)
    if fail:
        return '%s trainer: %s' % (name, fail), 'slice:fit:%s' % name, None, None, False
    pk = {}
    if name == 'cacgmm' and opts.get('source_activity_mask') is not None:
        pk['source_activity_mask'] = opts['source_activity_mask']
    try:
        P = mm.predict(name, M, data, **pk)
    except Exception as e:  # noqa
        return '%s predict raises %s on the stack: %s' % (name, type(e).__name__, str(e)[:200]), 'raises:predict:%s' % name, None, None, False
    if P.shape != (*lead, K, N):
        return '%s predict of the stack has shape %s' % (name, P.shape), 'slice:predict:%s' % name, None, None, False
    for b, m in sl.items():
        pkb = {k: v[b] for k, v in pk.items()}
        p = mm.predict(name, m, {'y': y[b]}, **pkb)
        d = close(P[b], p, max(rt, 1e-9) * 10 if name in ('cwmm', 'cbmm') else 1e-9)
        if d:
            return ('%s posterior of the stack at leading index %s differs from the slice run alone: %s' % (name, b, d)), \
                'slice:predict:%s' % name, None, None, False
    nt = int(np.prod(lead)) > 1
    return None, None, coq_mix(rng, name, y, opts, M, trace, lead), None, nt


def coq_mix(rng, name, y, opts, M, trace, lead):
    N, D = y.shape[-2:]
    parts = [coq_ravel(rng, y.shape)]
    if N * D <= 60 and name != 'cbmm':
        b = tuple(int(rng.integers(0, s)) for s in lead)
        aff = np.broadcast_to(trace[-1]['affiliation'], (*lead,) + trace[-1]['affiliation'].shape[-2:])
        K = aff.shape[-2]
        k = int(rng.integers(0, K))
        sal = opts.get('saliency')
        s = aff[b][k] * (1.0 if sal is None else sal[b])
        tiny = core.fhex(mm.tiny_of(y))
        if name == 'gmm':
            ct = {'full': 0, 'diagonal': 1, 'spherical': 2}[opts.get('covariance_type', 'full')]
            g = M.gaussian
            parts.append('check_gauss %d %d %s %s %s %d %s %s' % (D, N, tiny, core.fmat(y[b]), core.flist(s), ct, core.flist(g.mean[b][k]),
                                                                core.flist(np.ravel(g.covariance[b][k]))))
        elif name == 'vmfmm':
            v = M.vmf
            parts.append('check_vmf %d %d %s %s %s %s %s %s %s' % (
                D, N, tiny, core.fhex(opts.get('min_concentration', 1e-10)), core.fhex(opts.get('max_concentration', 500)),
                core.fmat(y[b]), core.flist(s), core.flist(v.mean[b][k]), core.fhex(v.concentration[b][k])))
        elif name == 'cwmm':
            w = M.complex_watson
            yn = mm.normalized(name, {'y': y})
            lp = w.log_pdf(yn[..., None, :, :])
            parts.append('check_watson_logpdf %d %s %s %s %s %s' % (
                D, core.clist(w.mode[b][k]), core.fhex(w.concentration[b][k]), core.fhex(w.log_norm()[b][k]), core.cmat(yn[b]), core.flist(lp[b][k])))
        elif name == 'cacgmm':
            c = M.cacg
            lp = c.log_pdf(y[..., None, :, :])
            parts.append('check_cacg_logpdf %d %s %s %s %s %s' % (
                D, tiny, core.cmat(c.covariance_eigenvectors[b][k]), core.flist(c.covariance_eigenvalues[b][k]), core.cmat(y[b]), core.flist(lp[b][k])))
            if opts.get('covariance_norm') is False and opts.get('eigenvalue_floor', 1) <= 1e-10 and 'quadratic_form' in trace[-1]:
                q = np.broadcast_to(trace[-1]['quadratic_form'], aff.shape)[b][k]
                cov = herm_rec(c.covariance_eigenvectors[b][k], c.covariance_eigenvalues[b][k])
                parts.append('check_cacg_cov %s %d %d %s %s %s %s %s' % (
                    core.cbool(opts.get('hermitize', True)), D, N, tiny, core.cmat(y[b]), core.flist(s), core.flist(q), core.clist(np.ravel(cov))))
    return 'allR [%s]' % '; '.join(parts)


_MX = [0]


def _case_mix(rng, tier, name, axes_stratum=False):
    cap = {'cbmm': 4, 'cwmm': 30}.get(name, 40)
    lead = lead_shape(rng, cap=cap)
    if axes_stratum:
        lead = (int(rng.integers(2, 4)), int(rng.integers(2, 4)))        # two leading axes
    K = 2 if name == 'cbmm' else int(rng.integers(2, 4))
    D = int(rng.integers(2, 4)) if name == 'cbmm' else int(rng.integers(2, 5))
    N = int(rng.integers(6, 9)) if name == 'cbmm' else int(rng.integers(3 * K + 2 * D, 3 * K + 2 * D + 8))
    data = mm.make_data(rng, name, K, D, N, lead, separation=float(rng.choice([0.5, 2.0, 4.0])))
    init = mm.make_init(rng, K, N, lead, ['positive', 'dirichlet'][int(rng.integers(0, 2))])
    opts = mix_options(rng, name, K, N, lead)
    if axes_stratum:
        # the tying option in every spelling (tuple / int / list), with non-negative axis numbers
        opts['weight_constant_axis'] = [(-1,), -1, [-1]][_MX[0] % 3]
    it = 1 if name == 'cbmm' else int(rng.integers(1, 4))
    _MX[0] += 1
    rp = {'fn': 'mix', 'model': name, 'y': data['y'], 'init': init, 'opts': opts, 'iterations': it, 'coqseed': int(rng.integers(0, 2 ** 31)),
          'positive_axes': _MX[0] % 4 == 0 or axes_stratum}
    fail, key, coq, raised, nt = eval_mix(rp, rng)
    label = '%s lead=%s K=%d D=%d N=%d it=%d positive_axes=%s opts=%s' % (name, lead, K, D, N, it, rp['positive_axes'], mm.describe_options(opts))
    return Case(label, coq=coq, pred_fail=fail, key=key, nontrivial=nt, digest_=core.digest(label, data['y'], init),
                sample={'name': label}, replay=rp, raised=raised, kind='mix/' + name)


# ----------------------------------------------------------------------------- D: singleton leading axes of the start
def eval_bcast(rp):
    name = rp['model']
    y, init1, opts, it = np.array(rp['y']), np.array(rp['init']), dict(rp['opts']), rp['iterations']
    for a in [y, init1] + [v for v in opts.values() if isinstance(v, np.ndarray)]:
        a.setflags(write=False)
    lead = y.shape[:-2]
    K, N = init1.shape[-2:]
    rep = np.ascontiguousarray(np.broadcast_to(init1, (*lead, K, N)))
    try:
        Mr, _ = mm.fit(name, {'y': y}, rep, iterations=it, **opts)
    except EXPLICIT as e:
        return None, None, None, 'repeated start raised %s' % type(e).__name__, False
    try:
        Mb, _ = mm.fit(name, {'y': y}, init1, iterations=it, **opts)
    except Exception as e:  # noqa
        return ('%s trainer raises %s for an initial affiliation with singleton leading axes %s (stack %s) although the '
                'repeated affiliation fits: %s' % (name, type(e).__name__, init1.shape, lead, str(e)[:200])), \
            'broadcast:raises:%s' % name, None, None, False
    rt = {'cwmm': 1e-7, 'cbmm': 1e-6}.get(name, RT)
    ob, orr = mix_obs(name, Mb), mix_obs(name, Mr)
    for k in orr:
        d = close(ob[k], orr[k], rt)
        if d:
            return ('%s: %s after a start with singleton leading axes %s differs from the repeated start: %s'
                    % (name, k, init1.shape, d)), 'broadcast:%s' % name, None, None, False
    try:
        pb_, pr = mm.predict(name, Mb, {'y': y}), mm.predict(name, Mr, {'y': y})
    except EXPLICIT as e:
        return ('%s predict raises %s after a start with singleton leading axes' % (name, type(e).__name__)), \
            'broadcast:raises:%s' % name, None, None, False
    d = close(pb_, pr, 1e-9 if name not in ('cwmm', 'cbmm') else 1e-6)
    if d:
        return '%s: posterior after a singleton start differs from the repeated start: %s' % (name, d), 'broadcast:%s' % name, None, None, False
    # bookkeeping in Coq: where the broadcast view reads
    tgt = (*lead, K, N)
    idx = tuple(int(v) for v in np.unravel_index(int(rp['pick']) % int(np.prod(tgt)), tgt))
    srcflat = int(np.broadcast_to(np.arange(init1.size).reshape(init1.shape), tgt)[idx])
    coq = 'check_broadcast %s %s %s %d' % (core.nlist(init1.shape), core.nlist(tgt), core.nlist(idx), srcflat)
    return None, None, coq, None, int(np.prod(lead)) > 1


_BC = {}


def _case_bcast(rng, tier, name):
    lead = lead_shape(rng, cap={'cbmm': 4}.get(name, 30))
    _BC[name] = _BC.get(name, 0) + 1
    inner = _BC[name] % 2 == 1
    if inner:
        # every model, every run: a singleton axis that FOLLOWS a non-singleton one - (A, 1, K, N) for a stack (A, B)
        lead = (2, 2) if name == 'cbmm' else (int(rng.integers(2, 4)), int(rng.integers(2, 4)))
    K = 2 if name == 'cbmm' else int(rng.integers(2, 4))
    D = int(rng.integers(2, 4)) if name == 'cbmm' else int(rng.integers(2, 5))
    N = int(rng.integers(6, 9)) if name == 'cbmm' else int(rng.integers(3 * K + 2 * D, 3 * K + 2 * D + 8))
    data = mm.make_data(rng, name, K, D, N, lead)
    # singleton on every leading axis, or only on some of them
    ilead = tuple(1 if rng.random() < 0.7 else s for s in lead)
    if ilead == lead:
        ilead = (1,) * len(lead)
    if inner:
        ilead = (lead[0], 1)
    init = mm.make_init(rng, K, N, ilead)
    opts = mix_options(rng, name, K, N, lead)
    opts.pop('source_activity_mask', None)
    it = 1 if name == 'cbmm' else int(rng.integers(1, 4))
    rp = {'fn': 'bcast', 'model': name, 'y': data['y'], 'init': init, 'opts': opts, 'iterations': it, 'pick': int(rng.integers(0, 2 ** 31))}
    fail, key, coq, raised, nt = eval_bcast(rp)
    label = 'singleton start %s init=%s stack=%s K=%d D=%d N=%d it=%d opts=%s' % (name, init.shape, lead, K, D, N, it, mm.describe_options(opts))
    return Case(label, coq=coq, pred_fail=fail, key=key, nontrivial=nt, digest_=core.digest(label, data['y'], init),
                sample={'name': label}, replay=rp, raised=raised, kind='bcast/' + name)


# ----------------------------------------------------------------------------- E: bookkeeping vs numpy
def _case_book(rng, tier, i):
    r = i % 4
    if r == 0:
        shape = tuple(int(v) for v in rng.integers(1, 6, int(rng.integers(1, 6))))
        coq = 'allR [%s]' % '; '.join(coq_ravel(rng, shape) for _ in range(4))
        name = 'ravel/unravel shape=%s' % (shape,)
    elif r == 1:
        tgt = tuple(int(v) for v in rng.integers(1, 6, int(rng.integers(1, 6))))
        src = tuple(1 if rng.random() < 0.5 else s for s in tgt)
        view = np.broadcast_to(np.arange(int(np.prod(src))).reshape(src), tgt)
        parts = []
        for _ in range(4):
            idx = tuple(int(rng.integers(0, s)) for s in tgt)
            parts.append('check_broadcast %s %s %s %d' % (core.nlist(src), core.nlist(tgt), core.nlist(idx), int(view[idx])))
        coq = 'allR [%s]' % '; '.join(parts)
        name = 'broadcast_to %s -> %s' % (src, tgt)
    elif r == 2:
        lead = tuple(int(v) for v in rng.integers(1, 5, int(rng.integers(0, 4))))
        D = int(rng.integers(1, 4))
        x = rng.integers(-50, 50, size=(*lead, D, D))
        tr = np.swapaxes(x.reshape(-1, D, D), -1, -2).reshape(x.shape)
        rs = x.reshape(-1, D, D).sum(-1).reshape(*lead, D)
        idx = tuple(int(rng.integers(0, s)) for s in lead)
        coq = 'allR [check_batched %d %d %s %s %s; check_slice %s %s %s %s %s]' % (
            x.size, D, core.zlist(x.ravel()), core.zlist(tr.ravel()), core.zlist(rs.ravel()),
            core.nlist(lead), core.nlist((D, D)), core.nlist(idx), core.zlist(x.ravel()), core.zlist(x[idx].ravel()))
        name = 'reshape(-1,D,D) pipeline lead=%s D=%d' % (lead, D)
    else:
        lead = tuple(int(v) for v in rng.integers(1, 5, int(rng.integers(0, 4))))
        tr = tuple(int(v) for v in rng.integers(1, 4, int(rng.integers(1, 4))))
        x = rng.normal(size=(*lead, *tr))
        letters = 'ijk'[:len(tr)]
        e = np.einsum('...%s->...' % letters, x)
        idx = tuple(int(rng.integers(0, s)) for s in lead)
        coq = 'check_esum %s %s %s %s %s' % (core.nlist(lead), core.nlist(tr), core.nlist(idx), core.flist(x.ravel()), core.fhex(e[idx]))
        name = 'ellipsis einsum lead=%s trailing=%s' % (lead, tr)
    return Case(name, coq=coq, nontrivial=True, digest_=core.digest(name, coq), sample={'name': name}, replay={'fn': 'book', 'coq': coq},
                kind='bookkeeping')


# ----------------------------------------------------------------------------- robust case construction
def _safe(fn, kind):
    def wrapped(*a, **k):
        st = a[0].bit_generator.state if a and isinstance(a[0], np.random.Generator) else None
        try:
            return fn(*a, **k)
        except Exception as e:      # an exception escaping the implementation on a path the predicates do not classify
            import traceback
            tb = traceback.format_exc()
            where = [ln.strip() for ln in tb.splitlines() if '/pb_bss/' in ln][-1:] or ['(harness)']
            rp = {'fn': 'crash', 'kind': kind, 'rng_state': st, 'args': [int(v) if isinstance(v, (int, np.integer)) else v
                                                                         for v in (a[1:] if st is not None else a)],
                  'kwargs': {kk: bool(vv) for kk, vv in k.items()}}
            return Case('%s crashed' % kind, coq=None, nontrivial=False, digest_=core.digest(kind, repr(rp)[:300]),
                        pred_fail='%s: unclassified %s: %s at %s' % (kind, type(e).__name__, str(e)[:200], where[0][:160]),
                        key='crash:%s:%s' % (kind, type(e).__name__), sample={'name': kind + ' crashed'}, replay=rp, kind='crash')
    return wrapped


def _replay_crash(rp):
    fn = globals()['_case_' + rp['kind']]
    if rp.get('rng_state') is not None:
        g = np.random.default_rng(0)
        g.bit_generator.state = rp['rng_state']
        args = [g] + list(rp['args'])
    else:
        args = list(rp['args'])
    try:
        c = fn(*args, **(rp.get('kwargs') or {}))
        return c.pred_fail
    except Exception as e:          # noqa
        return '%s: unclassified %s: %s' % (rp['kind'], type(e).__name__, str(e)[:200])


case_dist = _safe(_case_dist, 'dist')
case_mix = _safe(_case_mix, 'mix')
case_bcast = _safe(_case_bcast, 'bcast')
case_book = _safe(_case_book, 'book')


# -----------------------------------------------------------------------------
def cases(rng, tier):
    q = tier == 'quick'
    out = []
    for rep in range(10 if q else 100):
        for kind in DISTS:
            if kind == 'bingham' and rep >= (3 if q else 30):
                continue
            out.append(case_dist(rng, tier, kind))
    for rep in range(6 if q else 50):
        out.append(case_dist(rng, tier, 'cacg', force_degenerate=True))
    for rep in range(1 if q else 6):
        for kind in DISTS + ['bingham', 'bingham']:
            out.append(case_dist(rng, tier, kind, twins=True))
    for rep in range(10 if q else 100):
        for name in MIX:
            if name == 'cbmm' and rep >= (2 if q else 20):
                continue
            out.append(case_mix(rng, tier, name))
    for rep in range(3 if q else 15):
        for name in ('cacgmm', 'cwmm', 'gmm', 'vmfmm'):
            out.append(case_mix(rng, tier, name, axes_stratum=True))
    for rep in range(4 if q else 40):
        for name in MIX:
            if name == 'cbmm' and rep >= (1 if q else 10):
                continue
            out.append(case_bcast(rng, tier, name))
    for i in range(32 if q else 320):
        out.append(case_book(rng, tier, i))
    return out


def search(rng, tier, hints):
    for i in range(200 if tier == 'quick' else 1500):
        r = i % 3
        if r == 0:
            c = case_dist(rng, tier, DISTS[int(rng.integers(0, len(DISTS) - 1))])
        elif r == 1:
            c = case_mix(rng, tier, MIX[int(rng.choice([0, 1, 3, 4]))])
        else:
            c = case_bcast(rng, tier, MIX[int(rng.choice([0, 1, 3, 4]))])
        if c.pred_fail:
            return [c]
    return []


def replay(payload):
    rp = payload['replay']
    fn = rp['fn']
    if fn == 'crash':
        return _replay_crash(rp)
    if fn == 'dist':
        return eval_dist(rp)[0]
    if fn == 'mix':
        return eval_mix(rp)[0]
    if fn == 'bcast':
        return eval_bcast(rp)[0]
    return None
