"""C18 -- oracle masks satisfy their defining identities in every axis layout (mask_module: ideal_binary_mask,
wiener_like_mask, ideal_ratio_mask, ideal_amplitude_mask, phase_sensitive_mask, ideal_complex_mask,
quantile_mask, lorenz_mask).  Correspondence: points (source-axis masks) and threshold groups (quantile /
Lorenz) of the implementation's result, addressed by the documented layout with an explicit transpose
computed here (not np.moveaxis), against Model/Masks.v on PrimFloat; discrete outputs (one-hot entries,
levels) exactly, the others within 2^-30 of the largest entry.  numpy.moveaxis' order algorithm is compared
with the discrete model on random axis lists.  Predicates (independent NumPy): the identities of the property
statement, equivariance under transposition of the input, finite masks on silent / all-zero input, inputs
untouched."""
import itertools
import numpy as np
from harness import core
from harness.core import Case

PID = 'C18'
REQUIRES = ['Run.C18']
RULE = ('tensors with 1..4 axes, sizes 1..6 per axis (threshold groups of quantile / Lorenz masks 8..48 points), every '
        'source_axis / sensor_axis pair in positive or negative notation, keepdims in {F,T}, complex Gaussian data over '
        'scales 1e-3..1e3, small-integer data with tied powers, silent points, all-zero tensors; quantile scalar or '
        'tuple in (-1,1), weight in (0,1], Lorenz fraction 0.3..0.99; non-trivial: >= 2 sources (source-axis masks), '
        'group of >= 8 points with both levels present (quantile / Lorenz); distinct by SHA-1 of inputs and options')
NOT_PROVED = ('binary64 rounding (tolerance 2^-30 of the largest entry for the real-valued masks); axis equivariance of the '
              'mask functions is a predicate on every case (the model is per point, the layout is addressed by the harness) '
              '- only the moveaxis round trip is a theorem, for every rank <= 6; counting clauses of the quantile / Lorenz '
              'characterisation are _partial (see Properties/C18.v); finiteness on zero input in binary64 is a predicate')
ASSUMPTIONS = ['np.angle(0) = 0 (numpy convention; a negative-zero real part is not generated)',
               'numpy 2.x percentile, method "linear": virtual index (n-1) q, _lerp switching formula at t >= 0.5',
               'Lorenz / quantile cases satisfy the quantifier of the property: no single point carries the Lorenz fraction '
               '(a few cases violate it on purpose: numpy raises ValueError and the model has no threshold either)']

EPS = 1e-18
TOL = 1e-9
SRC_FUNCS = ['ibm', 'wiener', 'irm', 'iam', 'psm', 'icm']


def _fn(name):
    from pb_bss.extraction import mask_module as m
    return {'ibm': m.ideal_binary_mask, 'wiener': m.wiener_like_mask, 'irm': m.ideal_ratio_mask,
            'iam': m.ideal_amplitude_mask, 'psm': m.phase_sensitive_mask, 'icm': m.ideal_complex_mask,
            'quantile': m.quantile_mask, 'lorenz': m.lorenz_mask}[name]


def _neg(rng, ax, nd):
    return int(ax - nd) if rng.random() < 0.5 else int(ax)


def _data(rng, shape, kind):
    if kind == 'zero':
        return np.zeros(shape, dtype=complex)
    if kind == 'integer':
        return (rng.integers(-2, 3, shape) + 1j * rng.integers(-2, 3, shape)).astype(complex)
    x = (rng.normal(size=shape) + 1j * rng.normal(size=shape)) * 10.0 ** rng.uniform(-3, 3)
    if kind == 'silent':
        x = x * (rng.random(shape) < 0.6)
    return x


# ----------------------------------------------------------------------------------------- source-axis masks
_SL = {}
_S1 = {}


def make_src(rng, tier, name=None):
    name = name or str(rng.choice(SRC_FUNCS))
    nd = int(rng.integers(1, 5))
    shape = [int(v) for v in rng.integers(1, 7, nd)]
    src = int(rng.integers(0, nd))
    sen = None
    if name in ('ibm', 'wiener') and nd >= 2 and rng.random() < 0.6:
        sen = int(rng.choice([a for a in range(nd) if a != src]))
    if rng.random() < 0.7 and shape[src] == 1:
        shape[src] = int(rng.integers(2, 5))
    one_sensor = False
    if name in ('ibm', 'wiener'):
        _S1[name] = _S1.get(name, 0) + 1
        if _S1[name] % 4 == 0:
            # every run: a recording with exactly ONE channel on an explicit sensor axis, not kept in the output
            if nd < 2:
                nd, shape = 2, shape + [int(rng.integers(1, 7))]
                src = 0
            sen = int([a for a in range(nd) if a != src][int(rng.integers(0, nd - 1))])
            shape[sen] = 1
            one_sensor = True
    kind = str(rng.choice(['random', 'random', 'integer', 'integer', 'silent', 'zero'], p=[.3, .2, .2, .1, .15, .05]))
    x = _data(rng, shape, kind)
    _SL[name] = _SL.get(name, 0) + 1
    if _SL[name] % 3 == 0 and kind in ('random', 'silent'):
        # every mask, every run: a very quiet recording (amplitudes 1e-9 .. 1e-7, powers near the eps guards)
        x = x / max(np.abs(x).max(), 1e-300) * 10.0 ** rng.uniform(-9, -7)
        kind = kind + '/quiet'
    if name in ('ibm', 'wiener') and _S1.get(name, 0) % 3 == 1:
        free = [a for a in range(nd) if a != src and a != sen]
        if free:
            # every run: time-frequency points where EVERY source (and sensor) is exactly silent (zero padding, gated segments)
            idx = [slice(None)] * nd
            idx[free[0]] = 0
            x[tuple(idx)] = 0
            kind = kind + '/pause'
    if kind.startswith('silent') and sen is None and nd >= 2:        # some points silent in every source
        idx = [slice(None)] * nd
        other = [a for a in range(nd) if a != src][0]
        idx[other] = 0
        x[tuple(idx)] = 0
    rp = {'fn': name, 'x': x, 'source_axis': _neg(rng, src, nd), 'sensor_axis': None if sen is None else _neg(rng, sen, nd),
          'keepdims': bool(rng.random() < 0.5) and not one_sensor, 'perm': [int(v) for v in rng.permutation(nd)],
          'sel': int(rng.integers(0, 2 ** 31))}
    fail, key, coq = eval_src(rp)
    nm = '%s shape=%s source_axis=%d sensor_axis=%s keepdims=%s %s' % (name, shape, rp['source_axis'], rp['sensor_axis'],
                                                                        rp['keepdims'], kind)
    return Case(nm, coq=coq, pred_fail=fail, key=key, nontrivial=shape[src] >= 2 and kind != 'zero',
                digest_=core.digest(x, nm), sample={'name': nm, 'x': core.small(x, 3)}, replay=rp, kind='%s/%s' % (name, kind))


def _call_src(name, x, src, sen, keepdims):
    f = _fn(name)
    kw = {'source_axis': src}
    if sen is not None:
        kw['sensor_axis'] = sen
    if name in ('ibm', 'wiener'):
        kw['keepdims'] = keepdims
    return f(x, **kw)


def _canon_src(x, out, src, sen, keepdims):
    """x -> (K, D, rest), out -> (K, rest) by explicit transposes following the documented layout"""
    nd = x.ndim
    src %= nd
    rest = [a for a in range(nd) if a != src and (sen is None or a != sen % nd)]
    if sen is None:
        xc = np.transpose(x, [src] + rest)[:, None]
        oc = np.transpose(out, [src] + rest)
    else:
        sen %= nd
        xc = np.transpose(x, [src, sen] + rest)
        if keepdims:
            assert out.shape == tuple(1 if a == sen else x.shape[a] for a in range(nd)), out.shape
            oc = np.transpose(out, [src, sen] + rest)[:, 0]
        else:
            labels = [a for a in range(nd) if a != sen]       # output axes carry these input axes, in order
            assert out.shape == tuple(x.shape[a] for a in labels), out.shape
            oc = np.transpose(out, [labels.index(src)] + [labels.index(a) for a in rest])
    K, D = xc.shape[:2]
    return xc.reshape(K, D, -1), oc.reshape(K, -1)


def eval_src(rp):
    name, x = rp['fn'], np.array(rp['x'])
    src, sen, keepdims = rp['source_axis'], rp['sensor_axis'], rp['keepdims']
    nd = x.ndim
    x.setflags(write=False)
    xb = x.tobytes()
    try:
        out = np.asarray(_call_src(name, x, src, sen, keepdims))
    except Exception as ex:
        return '%s raised %s: %s on a valid layout' % (name, type(ex).__name__, str(ex)[:200]), '%s:raises:%s' % (name, type(ex).__name__), None
    if x.tobytes() != xb:
        return '%s modified its input' % name, '%s:mutates' % name, None
    try:
        xc, oc = _canon_src(x, out, src, sen, keepdims)
    except AssertionError as ex:
        return '%s result shape %s is not the documented layout' % (name, ex), '%s:shape' % name, None
    K, D, M = xc.shape
    coq = _coq_src(name, xc, oc, np.random.default_rng(rp['sel']))
    # ---- the property's identities, independent NumPy, all points
    P = (xc.real ** 2 + xc.imag ** 2).sum(1)                       # K x M pooled power
    s = xc[:, 0]                                                   # K x M (masks without sensor axis)
    if name != 'icm' and not np.all(np.isfinite(oc)):
        return '%s gives non-finite values (eps-guarded mask)' % name, '%s:nonfinite' % name, coq
    if name == 'ibm':
        first = np.array([int(np.flatnonzero(P[:, m] == P[:, m].max())[0]) for m in range(M)])
        want = (np.arange(K)[:, None] == first[None, :]).astype(float)
        if not np.array_equal(oc, want):
            return 'ideal_binary_mask is not one-hot at the first source of maximal pooled power', 'ibm:one-hot-argmax', coq
    elif name in ('wiener', 'irm'):
        A = P if name == 'wiener' else np.abs(s)
        tot = A.sum(0)
        if oc.min() < 0 or oc.max() > 1 + 1e-12:
            return '%s leaves [0, 1]' % name, '%s:range' % name, coq
        if np.abs(oc - A / (tot + EPS)).max() > TOL:
            return ('%s differs from %s / (sum over sources + eps)'
                    % (name, 'pooled power' if name == 'wiener' else 'magnitude')), '%s:formula' % name, coq
        if np.abs(oc.sum(0) - tot / (tot + EPS)).max() > TOL:
            return '%s does not sum to P/(P+eps) over the sources' % name, '%s:sum' % name, coq
    else:
        y = s.sum(0)
        ok = np.abs(y) > 1e-9 * max(np.abs(s).max(), 1e-300)
        if name == 'icm':
            if ok.any() and np.abs(oc[:, ok] * y[ok] - s[:, ok]).max() > TOL * np.abs(s).max():
                return 'ideal_complex_mask times the mixture does not reproduce the sources', 'icm:reconstruct', coq
        elif name == 'psm':
            with np.errstate(all='ignore'):
                want = (s / y).real * (np.abs(y) / (np.abs(y) + EPS))
            if ok.any() and np.abs(oc[:, ok] - want[:, ok]).max() > TOL * max(1.0, np.abs(want[:, ok]).max()):
                return 'phase_sensitive_mask is not Re(complex mask) |y|/(|y|+eps)', 'psm:re-icm', coq
        elif name == 'iam':
            want = np.abs(s) / (np.abs(y) + EPS)
            if np.abs(oc - want).max() > TOL * max(1.0, np.abs(want).max()):
                return 'ideal_amplitude_mask differs from |s| / (|sum s| + eps)', 'iam:formula', coq
    # ---- equivariance: transposing the input transposes the output
    perm = rp['perm']
    x2 = np.ascontiguousarray(np.transpose(x, perm))
    s2 = perm.index(src % nd)
    n2 = None if sen is None else perm.index(sen % nd)
    out2 = np.asarray(_call_src(name, x2, s2, n2, keepdims))
    if sen is None or keepdims:
        want2 = np.transpose(out, perm)
    else:
        labels = [a for a in range(nd) if a != sen % nd]
        want2 = np.transpose(out, [labels.index(a) for a in perm if a != sen % nd])
    if out2.shape != want2.shape or not np.allclose(out2, want2, rtol=1e-12, atol=0, equal_nan=True):
        return ('%s: moving the axes of the input by %s does not move the axes of the output accordingly'
                % (name, perm)), '%s:equivariance' % name, coq
    return None, None, coq


def _coq_src(name, xc, oc, rng):
    K, D, M = xc.shape
    pts = list(range(M))
    if len(pts) > 6:
        pts = [int(v) for v in rng.choice(M, 6, replace=False)]
    parts = []
    for m in pts:
        if name == 'ibm':
            parts.append('check_ibm %d %d %s %s' % (K, D, core.cmat(xc[:, :, m]), core.flist(oc[:, m])))
        elif name == 'wiener':
            parts.append('check_wiener %d %d %s %s %s' % (K, D, core.cmat(xc[:, :, m]), core.fhex(EPS), core.flist(oc[:, m])))
        elif name == 'icm':
            if xc[:, 0, m].sum() == 0 or not np.all(np.isfinite(oc[:, m])):
                continue
            parts.append('check_icm %d %s %s' % (K, core.clist(xc[:, 0, m]), core.clist(oc[:, m])))
        else:
            parts.append('check_%s %d %s %s %s' % (name, K, core.clist(xc[:, 0, m]), core.fhex(EPS), core.flist(oc[:, m])))
    return 'allR [' + '; '.join(parts) + ']' if parts else None


# ----------------------------------------------------------------------------------------- quantile / Lorenz masks
def _group_shape(rng, nd):
    """shape and the axes forming one threshold group (8..48 points)"""
    na = int(rng.integers(1, min(nd, 3) + 1))
    axes = sorted(int(a) for a in rng.choice(nd, na, replace=False))
    gs = {1: [(8,), (9,), (12,), (16,), (25,)], 2: [(2, 4), (3, 3), (4, 5), (6, 6), (2, 6), (8, 1), (3, 4)],
          3: [(2, 2, 2), (2, 3, 2), (3, 2, 4), (1, 3, 3)]}[na]
    g = gs[int(rng.integers(0, len(gs)))]
    shape = [int(v) for v in rng.integers(1, 5, nd)]
    order = [int(v) for v in rng.permutation(na)]
    for i, a in enumerate(axes):
        shape[a] = g[i]
    axes = [axes[i] for i in order]            # the axis tuple in arbitrary order
    return shape, axes


def _canon_group(a, axes, drop=None):
    """(independent, group) view by an explicit transpose: independent axes in order, then the group axes"""
    nd = a.ndim
    axes = [v % nd for v in axes]
    rest = [v for v in range(nd) if v not in axes and v != drop]
    t = np.transpose(a, rest + axes + ([drop] if drop is not None else []))
    g = int(np.prod([a.shape[v] for v in axes]))
    if drop is None:
        return t.reshape(-1, g)
    return t.reshape(-1, g, a.shape[drop])


def make_quantile(rng, tier):
    nd = int(rng.integers(1, 5))
    shape, axes = _group_shape(rng, nd)
    kind = str(rng.choice(['random', 'integer', 'silent'], p=[.55, .3, .15]))
    x = _data(rng, shape, kind)
    if rng.random() < 0.25:
        q = [float(rng.choice([0.1, 0.25, 0.5, 0.3])), -float(rng.choice([0.9, 0.5, 0.75, 0.2]))]
    else:
        q = float(rng.choice([0.1, 0.25, 0.5, 0.9, -0.9, -0.5, -0.1, 0.0])) if rng.random() < 0.5 else float(rng.uniform(-1, 1))
    axis = [_neg(rng, a, nd) for a in axes]
    axis_arg = axis[0] if len(axis) == 1 and rng.random() < 0.6 else (tuple(axis) if rng.random() < 0.7 else list(axis))
    rp = {'fn': 'quantile', 'x': x, 'quantile': q, 'axis': axis_arg if not isinstance(axis_arg, tuple) else list(axis_arg),
          'axis_is_tuple': isinstance(axis_arg, tuple), 'weight': float(rng.choice([0.999, 1.0, 0.5])) if rng.random() < 0.6 else float(rng.uniform(0.05, 1)),
          'perm': [int(v) for v in rng.permutation(nd)], 'sel': int(rng.integers(0, 2 ** 31))}
    fail, key, coq, nontriv = eval_quantile(rp)
    nm = 'quantile_mask shape=%s axis=%s quantile=%s weight=%g %s' % (shape, axis_arg, q, rp['weight'], kind)
    return Case(nm, coq=coq, pred_fail=fail, key=key, nontrivial=nontriv, digest_=core.digest(x, nm),
                sample={'name': nm, 'x': core.small(x, 3)}, replay=rp, kind='quantile/' + kind)


def _axis_arg(rp):
    a = rp['axis']
    if isinstance(a, list):
        return tuple(a) if rp.get('axis_is_tuple') else list(a)
    return a


def eval_quantile(rp):
    f = _fn('quantile')
    x = np.array(rp['x']); x.setflags(write=False)
    xb = x.tobytes()
    q, w = rp['quantile'], rp['weight']
    axis = _axis_arg(rp)
    axes = list(axis) if isinstance(axis, (tuple, list)) else [axis]
    nd = x.ndim
    qarg = tuple(q) if isinstance(q, list) else q
    try:
        out = np.asarray(f(x, quantile=qarg, axis=axis, weight=w))
    except Exception as ex:
        cls = 'no-independent-axis' if len(axes) == nd else 'other'
        return ('quantile_mask raised %s: %s on a valid input (shape %s, axis %s)'
                % (type(ex).__name__, str(ex)[:160], x.shape, axis)), 'quantile_mask:raises:%s:%s' % (type(ex).__name__, cls), None, True
    if x.tobytes() != xb:
        return 'quantile_mask modified its input', 'quantile_mask:mutates', None, True
    qs = list(q) if isinstance(q, list) else [q]
    want_shape = ((len(qs),) if isinstance(q, list) else ()) + x.shape
    if out.shape != want_shape:
        return 'quantile_mask result shape %s, documented %s' % (out.shape, want_shape), 'quantile_mask:shape', None, True
    outs = list(out) if isinstance(q, list) else [out]
    xg = _canon_group(x, axes)
    hi, lo = 0.5 + w * (1 - 0.5), 0.5 + w * (0 - 0.5)
    sel = np.random.default_rng(rp['sel'])
    parts, nontriv = [], False
    for qq, o in zip(qs, outs):
        og = _canon_group(o, axes)
        mg = np.abs(xg)
        if not np.all((og == hi) | (og == lo)):
            return 'quantile_mask levels are not 0.5 +/- weight/2', 'quantile_mask:levels', None, True
        pq = 1 - qq if qq >= 0 else abs(qq)
        thr = np.quantile(mg, pq, axis=-1, keepdims=True)
        thr2 = np.percentile(mg, pq * 100, axis=-1, keepdims=True)
        want = (mg > thr) if qq >= 0 else (mg < thr)
        # a point within rounding of the threshold is decided by the rounding of the threshold -- unless the
        # threshold IS that point (the quantile falls on an order statistic): then the comparison is strict
        near = (np.abs(mg - thr) <= 1e-12 * np.maximum(thr, 1e-300)) & ~((mg == thr) & (thr == thr2))
        bad = ((og == hi) != want) & ~near
        if bad.any():
            return ('quantile_mask (quantile %g): high level is not exactly the set %s the %s quantile of the magnitudes'
                    % (qq, 'above' if qq >= 0 else 'below', '(1-q)' if qq >= 0 else '|q|')), 'quantile_mask:set', None, True
        nontriv = nontriv or bool(((og == hi).any(-1) & (og == lo).any(-1)).any())
        rows = list(range(xg.shape[0]))
        if len(rows) > 3:
            rows = [int(v) for v in sel.choice(len(rows), 3, replace=False)]
        for r in rows:
            parts.append('check_quantile %s %s %s %s' % (core.clist(xg[r]), core.fhex(qq), core.fhex(w), core.flist(og[r])))
    coq = 'allR [' + '; '.join(parts) + ']'
    # equivariance under transposition of the input
    perm = rp['perm']
    x2 = np.ascontiguousarray(np.transpose(x, perm))
    ax2 = [perm.index(a % nd) for a in axes]
    try:
        out2 = np.asarray(f(x2, quantile=qarg, axis=tuple(ax2) if isinstance(axis, (tuple, list)) else ax2[0], weight=w))
    except Exception as ex:
        return 'quantile_mask raised %s on the transposed input' % type(ex).__name__, 'quantile_mask:equivariance', coq, True
    p2 = ([0] + [p + 1 for p in perm]) if isinstance(q, list) else perm
    if not np.array_equal(out2, np.transpose(out, p2)):
        return 'quantile_mask: moving the axes of the input does not move the axes of the output accordingly', 'quantile_mask:equivariance', coq, True
    return None, None, coq, nontriv


def make_lorenz(rng, tier):
    nd = int(rng.integers(1, 5))
    shape, axes = _group_shape(rng, nd)
    sen = None
    if nd > len(axes) and rng.random() < 0.5:
        sen = int(rng.choice([a for a in range(nd) if a not in axes]))
        shape[sen] = int(rng.integers(1, 5))
    kind = str(rng.choice(['random', 'integer', 'silent', 'dominant'], p=[.5, .3, .12, .08]))
    x = _data(rng, shape, 'random' if kind == 'dominant' else kind)
    if kind == 'dominant':         # one point carries almost all power in every group: numpy raises (outside the quantifier)
        idx = tuple(0 if a in axes else slice(None) for a in range(nd))
        x[idx] = x[idx] * 1e4 + 1e4 * np.abs(x).max()
    fraction = float(rng.choice([0.98, 0.9, 0.5])) if rng.random() < 0.5 else float(rng.uniform(0.3, 0.99))
    if kind == 'integer' and rng.random() < 0.6:
        # a cumulative power share that EQUALS the fraction in binary64 (small-integer powers): "stays below" is strict.
        # Distinct integer magnitudes (purely real or purely imaginary entries): powers are exact and untied, so the
        # point at the boundary is identifiable
        mag = rng.permutation(int(np.prod(shape))).reshape(shape) + 1.0
        x = np.where(rng.random(shape) < 0.5, mag, 1j * mag).astype(complex)
        pw = x.real ** 2 + x.imag ** 2
        if sen is not None:
            pw = pw.sum(axis=sen, keepdims=True)
        pw = np.moveaxis(pw, axes, [-(i + 1) for i in range(len(axes))])
        row = np.sort(pw.reshape(-1, int(np.prod(pw.shape[-len(axes):])))[int(rng.integers(0, max(1, pw.size // int(np.prod(pw.shape[-len(axes):])))))], axis=None)[::-1]
        if row.size >= 3 and row.sum() > 0:
            lf = np.cumsum(row) / np.sum(row)
            j = int(rng.integers(1, row.size - 1))
            if lf[0] < lf[j] < 1:
                fraction = float(lf[j])
                kind = 'integer-exact-share'
    axis = [_neg(rng, a, nd) for a in axes]
    default_axis = (axis == [-2, -1]) and rng.random() < 0.5
    axis_arg = axis[0] if len(axis) == 1 and rng.random() < 0.6 else list(axis)
    rp = {'fn': 'lorenz', 'x': x, 'axis': axis_arg, 'axis_is_tuple': bool(rng.random() < 0.7), 'default_axis': bool(default_axis),
          'sensor_axis': None if sen is None else _neg(rng, sen, nd), 'keepdims': bool(rng.random() < 0.5),
          'fraction': fraction, 'weight': float(rng.choice([0.999, 1.0, 0.5])) if rng.random() < 0.6 else float(rng.uniform(0.05, 1)),
          'perm': [int(v) for v in rng.permutation(nd)], 'sel': int(rng.integers(0, 2 ** 31))}
    fail, key, coq, nontriv = eval_lorenz(rp)
    nm = 'lorenz_mask shape=%s axis=%s sensor_axis=%s keepdims=%s fraction=%g weight=%g %s' % (
        shape, axis_arg, rp['sensor_axis'], rp['keepdims'], fraction, rp['weight'], kind)
    return Case(nm, coq=coq, pred_fail=fail, key=key, nontrivial=nontriv, digest_=core.digest(x, nm),
                sample={'name': nm, 'x': core.small(x, 3)}, replay=rp, kind='lorenz/' + kind)


def _call_lorenz(f, x, rp, axis, sen):
    kw = {'lorenz_fraction': rp['fraction'], 'weight': rp['weight'], 'keepdims': rp['keepdims']}
    if not rp.get('default_axis'):
        kw['axis'] = axis
    if sen is not None:
        kw['sensor_axis'] = sen
    return f(x, **kw)


def eval_lorenz(rp):
    f = _fn('lorenz')
    x = np.array(rp['x']); x.setflags(write=False)
    xb = x.tobytes()
    nd = x.ndim
    axis = _axis_arg(rp)
    axes = [a % nd for a in (list(axis) if isinstance(axis, (tuple, list)) else [axis])]
    sen = rp['sensor_axis']
    senp = None if sen is None else sen % nd
    frac, w = rp['fraction'], rp['weight']
    xg = _canon_group(x, axes, drop=senp)                       # (indep, G) or (indep, G, D)
    if senp is None:
        xg = xg[..., None]
    pw = (np.abs(xg) ** 2).sum(-1)                              # (indep, G)
    sp = -np.sort(-pw, axis=-1)
    share = np.cumsum(sp, -1) / sp.sum(-1, keepdims=True)
    with np.errstate(all='ignore'):
        valid = bool(np.all(share[:, 0] < frac))                # no single point carries the Lorenz fraction
    sel = np.random.default_rng(rp['sel'])
    # history: an earlier call on an array of the same shape with the same NUMBER of axes but other axes (whatever its
    # outcome) must not influence this call
    try:
        free = [a for a in range(nd) if a != senp]
        alt = [a for a in free if a not in axes][:len(axes)] + [a for a in free if a in axes]
        alt = alt[:len(axes)]
        if sorted(alt) != sorted(axes) and len(alt) == len(axes):
            alt_arg = tuple(a - nd for a in alt) if isinstance(axis, (tuple, list)) else alt[0] - nd
            _call_lorenz(f, core.other_values(x), dict(rp, default_axis=False), alt_arg, sen)
    except Exception:
        pass
    try:
        out = np.asarray(_call_lorenz(f, x, rp, axis, sen))
    except Exception as ex:
        if not valid and isinstance(ex, ValueError):
            # outside the property's quantifier; the model must agree that there is no threshold
            rows = [r for r in range(pw.shape[0]) if not share[r, 0] < frac][:1]
            coq = 'allR [' + '; '.join('check_lorenz_raises %s %s' % (core.cmat(xg[r]), core.fhex(frac)) for r in rows) + ']'
            return None, None, coq, False
        return ('lorenz_mask raised %s: %s on a valid input (shape %s, axis %s)'
                % (type(ex).__name__, str(ex)[:160], x.shape, axis)), 'lorenz_mask:raises:%s' % type(ex).__name__, None, True
    if x.tobytes() != xb:
        return 'lorenz_mask modified its input', 'lorenz_mask:mutates', None, True
    if not valid:
        return None, None, None, False
    if senp is None:
        want_shape, od = x.shape, out
    elif rp['keepdims']:
        want_shape = tuple(1 if a == senp else x.shape[a] for a in range(nd))
        od = out
    else:
        want_shape = tuple(x.shape[a] for a in range(nd) if a != senp)
        od = np.expand_dims(out, senp) if out.ndim == nd - 1 else out
    if out.shape != want_shape:
        return 'lorenz_mask result shape %s, documented %s' % (out.shape, want_shape), 'lorenz_mask:shape', None, True
    og = _canon_group(od, axes, drop=senp)
    og = og[..., 0] if senp is not None else og
    hi, lo = 0.5 + w * (1 - 0.5), 0.5 + w * (0 - 0.5)
    if not np.all((og == hi) | (og == lo)):
        return 'lorenz_mask levels are not 0.5 +/- weight/2', 'lorenz_mask:levels', None, True
    # threshold: the weakest of the strongest points whose cumulative share stays below the fraction
    mcount = (share < frac).sum(-1)
    thr = sp[np.arange(sp.shape[0]), mcount - 1][:, None]
    edge = np.abs(share - frac).min(-1) < 1e-12                 # a share within rounding of the fraction
    if np.all(pw == np.round(pw)) and float(pw.sum(-1).max()) < 2.0 ** 52:
        # integer-valued powers: every partial sum is exact whatever the summation order, the share is one correctly
        # rounded division, so "cumulative share below the fraction" (strict) is decided exactly - also at equality
        edge = np.zeros_like(edge)
    bad = ((og == hi) != (pw > thr)) & ~edge[:, None]
    if bad.any():
        return ('lorenz_mask: high level is not exactly the set of points stronger than the weakest of the strongest points '
                'whose cumulative power share stays below %g' % frac), 'lorenz_mask:set', None, True
    nontriv = bool(((og == hi).any(-1) & (og == lo).any(-1)).any())
    rows = list(range(pw.shape[0]))
    if len(rows) > 3:
        rows = [int(v) for v in sel.choice(len(rows), 3, replace=False)]
    rows = [r for r in rows if not edge[r]]
    coq = 'allR [' + '; '.join('check_lorenz %s %s %s %s' % (core.cmat(xg[r]), core.fhex(frac), core.fhex(w), core.flist(og[r]))
                                for r in rows) + ']' if rows else None
    # equivariance
    perm = rp['perm']
    x2 = np.ascontiguousarray(np.transpose(x, perm))
    ax2 = [perm.index(a) for a in axes]
    rp2 = dict(rp, default_axis=False)
    out2 = np.asarray(_call_lorenz(f, x2, rp2, tuple(ax2) if isinstance(axis, (tuple, list)) else ax2[0],
                                   None if senp is None else perm.index(senp)))
    if senp is None or rp['keepdims']:
        want2 = np.transpose(out, perm)
    else:
        labels = [a for a in range(nd) if a != senp]
        want2 = np.transpose(out, [labels.index(a) for a in perm if a != senp])
    if out2.shape != want2.shape or not np.array_equal(out2, want2):
        return 'lorenz_mask: moving the axes of the input does not move the axes of the output accordingly', 'lorenz_mask:equivariance', coq, True
    return None, None, coq, nontriv


# ----------------------------------------------------------------------------------------- numpy.moveaxis order
def make_moveaxis(rng, tier):
    nd = int(rng.integers(1, 7))
    m = int(rng.integers(0, nd + 1))
    src = [int(v) for v in rng.permutation(nd)[:m]]
    if rng.random() < 0.6:
        dst = [nd - 1 - i for i in range(m)]                    # tmp_axis = (-1, -2, ...)
        if rng.random() < 0.5:
            src, dst = dst, src                                 # the way back
    else:
        dst = [int(v) for v in rng.permutation(nd)[:m]]
    sizes = (2, 3, 4, 5, 6, 7)[:nd]
    moved = np.moveaxis(np.empty(sizes, dtype=np.int8), src, dst)
    order = [sizes.index(v) for v in moved.shape]
    nm = 'moveaxis nd=%d source=%s destination=%s' % (nd, src, dst)
    coq = 'check_moveaxis %d %s %s %s' % (nd, core.nlist(src), core.nlist(dst), core.nlist(order))
    return Case(nm, coq=coq, nontrivial=m >= 1 and nd >= 2, digest_=core.digest(nm), sample=None,
                replay={'fn': 'moveaxis'}, kind='moveaxis')


# ----------------------------------------------------------------------------------------- driver
def cases(rng, tier):
    n = 24 if tier == 'quick' else 240
    out = []
    for i in range(n):
        for name in SRC_FUNCS:
            out.append(make_src(rng, tier, name))
        out.append(make_quantile(rng, tier))
        out.append(make_quantile(rng, tier))
        out.append(make_lorenz(rng, tier))
        out.append(make_lorenz(rng, tier))
        out.append(make_moveaxis(rng, tier))
    return out


def search(rng, tier, hints):
    for i in range(600 if tier == 'quick' else 4000):
        r = i % 8
        c = make_src(rng, 'quick') if r < 5 else (make_quantile(rng, 'quick') if r < 7 else make_lorenz(rng, 'quick'))
        if c.pred_fail:
            return [c]
    return []


def replay(payload):
    rp = payload['replay']
    fn = rp['fn']
    if fn in SRC_FUNCS:
        return eval_src(rp)[0]
    if fn == 'quantile':
        return eval_quantile(rp)[0]
    if fn == 'lorenz':
        return eval_lorenz(rp)[0]
    return None
