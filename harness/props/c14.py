"""C14 -- permutation alignment only reorders classes (pb_bss/permutation_alignment.py,
apply_inline_permutation_alignment and the integration-model permutation search of
pb_bss/distribution/mixture_model_utils.py).

Correspondence (exact, decided inside Coq): _mapping_from_score_matrix greedy / optimal on ALL matrices
over {0,1,2} for K <= 3 (int and float dtype) and on random float / tied integer matrices K <= 6 with
0..2 leading axes; apply_mapping; DHTV / greedy / oracle calculate_mapping on tie-free masks (and on
integer-valued masks for the exactly computable metrics); apply_inline_permutation_alignment; the
permutation chosen by log_pdf_to_affiliation_for_integration_models_with_inline_pa.
Predicates (independent NumPy, every case incl. constant / zero / tied masks): mapping has shape (K, F)
and is a permutation of 0..K-1 in every bin; aligned[k, f] == mask[mapping[k, f], f]; per-bin multiset
of rows and sums over the class axis preserved; affiliation and quadratic form reordered by the same
mapping; integration-model output = posterior of a class permutation that is not worse than the
identity (nor any other permutation) under the auxiliary function; inputs not modified (read-only arrays)."""
import itertools
import numpy as np
from harness import core
from harness.core import Case
from harness.props import permalign_common as pc

PID = 'C14'
REQUIRES = ['Run.C14', 'Run.C15', 'Run.C16']
SHARD = 8
RULE = ('score matrices: exhaustive {0,1,2}^(KxK) for K<=3 (int64 and float64), random continuous / tied integer '
        'matrices K 1..6 with 0..2 leading axes, non-finite matrices must raise ValueError; masks K 1..6, odd F, '
        'T>=1 of kinds continuous / posterior-like / constant / zero / tied rows and bins / binary / small ints / '
        'sparse, metrics cos / euclidean / multiply, algorithms greedy / optimal, DHTV plans incl. width=F, width=1, '
        'shift=width, 0 sub-iterations; non-trivial: K>=2 and F>=3 and mapping not the identity, or a tied/zero mask; '
        'distinct by SHA-1 of inputs and options')
NOT_PROVED = ('binary64 rounding of the score sums (exact mapping comparison is made on tie-free or integer-valued '
              'masks only; tied real-valued masks are covered by the theorems, which hold for every matrix, and by '
              'the predicates); numpy fancy-indexing semantics of apply_mapping (compared, not proved); integer '
              'score matrices containing the dtype minimum defeat the -inf masking (outside the stated quantifier)')
ASSUMPTIONS = ['masks are real, finite; K < 10 (asserted by the code); F odd (asserted by the code)']

KINDS = ['cont', 'unit', 'const', 'zero', 'tied', 'binary', 'ints', 'sparse']


# --------------------------------------------------------------------------- score-matrix grids
def grid_matrices(K, ns):
    M = np.zeros((len(ns), K, K), dtype=np.int64)
    for i in range(K):
        for j in range(K):
            M[:, i, j] = (ns // 3 ** (i * K + j)) % 3
    return M


def evaluate_grid(rp):
    from pb_bss.permutation_alignment import _mapping_from_score_matrix
    K, algo, dtype = rp['K'], rp['algo'], rp['dtype']
    ns = rp['start'] + rp['stride'] * np.arange(rp['count'], dtype=np.int64)
    M = grid_matrices(K, ns)
    if dtype == 'float':
        M = M.astype(np.float64) - 1.0
    M = pc.ro(M)
    b = M.tobytes()
    try:
        mp = _mapping_from_score_matrix(M, algo)
    except Exception as e:
        return 'raised %s: %s' % (type(e).__name__, str(e)[:200]), 'grid:raises:%s' % algo, None
    if M.tobytes() != b:
        return 'score matrix modified', 'grid:mutates', None
    if mp.shape != (K, len(ns)):
        return 'mapping shape %s, expected %s' % (mp.shape, (K, len(ns))), 'grid:shape:%s' % algo, None
    coq = 'check_assign_grid %s %d 3 %d %d %s' % (core.cbool(algo == 'greedy'), K, rp['start'], rp['stride'],
                                                 core.zlist(pc.perm_codes(np.clip(mp, 0, K), K)))
    if not pc.is_perm_field(mp, K):
        n = int(np.argmax((np.sort(mp, axis=0) != np.arange(K)[:, None]).any(axis=0)))
        return ('%s assignment of %s is %s: not a permutation' % (algo, M[n].tolist(), mp[:, n].tolist()),
                'grid:notperm:%s' % algo, coq)
    return None, None, coq


def grid_cases(tier):
    out = []
    chunk = 5000
    for K in (1, 2, 3):
        N = 3 ** (K * K)
        for algo in ('greedy', 'optimal'):
            for dtype in ('int', 'float'):
                for s in range(0, N, chunk):
                    rp = {'fn': 'grid', 'K': K, 'algo': algo, 'dtype': dtype, 'start': s, 'stride': 1,
                          'count': min(chunk, N - s)}
                    fail, key, coq = evaluate_grid(rp)
                    name = 'grid K=%d %s %s [%d,%d)' % (K, algo, dtype, s, s + rp['count'])
                    out.append(Case(name, coq=coq, pred_fail=fail, key=key, nontrivial=K >= 2,
                                    digest_=core.digest(name), sample={'name': name}, replay=rp, kind='grid'))
    return out


# --------------------------------------------------------------------------- random score matrices
def evaluate_matrix(rp):
    from pb_bss.permutation_alignment import _mapping_from_score_matrix
    S, algo = pc.ro(rp['score']), rp['algo']
    K = S.shape[-1]
    b = S.tobytes()
    finite = bool(np.all(np.isfinite(S)))
    try:
        mp = _mapping_from_score_matrix(S, algo)
    except ValueError as e:
        if not finite:
            return None, None, None
        return 'raised ValueError on a finite matrix: %s' % e, 'matrix:raises:%s' % algo, None
    except Exception as e:
        return 'raised %s: %s' % (type(e).__name__, str(e)[:200]), 'matrix:raises:%s' % algo, None
    if not finite:
        return 'non-finite score matrix accepted (documented: ValueError)', 'matrix:infeasible', None
    if S.tobytes() != b:
        return 'score matrix modified', 'matrix:mutates', None
    lead = S.shape[:-2]
    if mp.shape != (K, *lead):
        return 'mapping shape %s, expected %s' % (mp.shape, (K, *lead)), 'matrix:shape:%s' % algo, None
    flatS = S.reshape(-1, K, K).astype(np.float64)
    flatM = mp.reshape(K, -1)
    parts = ['check_assign_float %s %d %s %s' % (core.cbool(algo == 'greedy'), K, core.fmat(flatS[n]),
                                                  core.nlist(np.clip(flatM[:, n], 0, 99)))
             for n in range(min(3, flatS.shape[0]))]
    coq = 'allR [' + '; '.join(parts) + ']'
    if not pc.is_perm_field(flatM, K):
        return '%s assignment is not a permutation: %s' % (algo, flatM.T.tolist()[:3]), 'matrix:notperm:%s' % algo, coq
    return None, None, coq


def matrix_case(rng, tier, i):
    K = int(rng.integers(1, 7))
    lead = [(), (int(rng.integers(1, 5)),), (2, int(rng.integers(1, 4)))][int(rng.integers(0, 3))]
    r = rng.random()
    if r < 0.35:
        S, kind = rng.normal(size=(*lead, K, K)) * 10.0 ** rng.integers(-3, 4), 'cont'
    elif r < 0.6:
        S, kind = rng.integers(-2, 3, (*lead, K, K)).astype(np.float64), 'tiedfloat'
    elif r < 0.8:
        S, kind = rng.integers(0, 3, (*lead, K, K)).astype(np.int64), 'tiedint'
    elif r < 0.9:
        S, kind = np.zeros((*lead, K, K)), 'zero'
    else:
        S, kind = rng.normal(size=(*lead, K, K)), 'nonfinite'
        S.reshape(-1)[int(rng.integers(0, S.size))] = [np.inf, -np.inf, np.nan][int(rng.integers(0, 3))]
    algo = 'greedy' if rng.random() < 0.5 else 'optimal'
    rp = {'fn': 'matrix', 'score': S, 'algo': algo}
    fail, key, coq = evaluate_matrix(rp)
    name = 'matrix K=%d lead=%s %s %s' % (K, lead, kind, algo)
    return Case(name, coq=coq, pred_fail=fail, key=key, nontrivial=K >= 2 and kind != 'nonfinite',
                digest_=core.digest(S, algo), sample={'name': name, 'score': core.small(S, 4)}, replay=rp,
                kind='matrix/' + kind)


# --------------------------------------------------------------------------- integer boundary
def evaluate_intmin(rp):
    """integer score matrices that contain the dtype minimum: the code masks picked rows / columns with
    that very value.  Boundary of the implementation outside the property's quantifier (real masks):
    only the faithfulness of the model (Model/PermAlign.v greedy_assign_int, theorem
    C14_greedy_int_min_refuted) is checked here, not bijectivity."""
    from pb_bss.permutation_alignment import _mapping_from_score_matrix
    S = pc.ro(rp['score'])
    K = S.shape[-1]
    bottom = int(np.iinfo(S.dtype).min)
    try:
        mp = _mapping_from_score_matrix(S, 'greedy')
    except Exception as e:
        return 'raised %s: %s' % (type(e).__name__, str(e)[:200]), 'intmin:raises', None
    coq = 'check_assign_int %d %s (%d) %s' % (K, core.zmat(S.tolist()), bottom, core.nlist(np.clip(mp, 0, 99)))
    if (S > bottom).all() and not pc.is_perm_field(mp, K):
        return 'integer matrix above the dtype minimum: assignment %s is not a permutation' % mp.tolist(), 'intmin:notperm', coq
    return None, None, coq


def intmin_case(rng, tier, i):
    K = int(rng.integers(1, 5))
    dt = [np.int64, np.int32, np.int16][int(rng.integers(0, 3))]
    lo = np.iinfo(dt).min
    S = rng.integers(-3, 4, (K, K)).astype(dt)
    r = rng.random()
    if r < 0.4:
        S[rng.random((K, K)) < 0.4] = lo
    elif r < 0.6:
        S[:] = lo
    elif r < 0.8:
        S = (S.astype(np.int64) + lo + 4).astype(dt)      # all entries just above the minimum
    rp = {'fn': 'intmin', 'score': S}
    fail, key, coq = evaluate_intmin(rp)
    name = 'integer-boundary K=%d %s %s' % (K, np.dtype(dt).name, 'with-min' if (S == lo).any() else 'above-min')
    return Case(name, coq=coq, pred_fail=fail, key=key, nontrivial=K >= 2, digest_=core.digest(S),
                sample={'name': name, 'score': core.small(S, 9)}, replay=rp, kind='intmin')


# --------------------------------------------------------------------------- apply_mapping
def evaluate_apply(rp):
    from pb_bss.permutation_alignment import apply_mapping
    mask, mapping = pc.ro(rp['mask']), pc.ro(rp['mapping'])
    K, F = mapping.shape
    b1, b2 = mask.tobytes(), mapping.tobytes()
    try:
        out = apply_mapping(mask, mapping)
    except Exception as e:
        return 'apply_mapping raised %s: %s' % (type(e).__name__, str(e)[:200]), 'apply:raises', None
    if mask.tobytes() != b1 or mapping.tobytes() != b2:
        return 'input modified', 'apply:mutates', None
    if out.shape != mask.shape:
        return 'result shape %s' % (out.shape,), 'apply:shape', None
    m3 = mask.reshape(K, F, -1).astype(np.float64)
    o3 = np.asarray(out).reshape(K, F, -1).astype(np.float64)
    coq = 'check_apply_mapping %d %d %s %s %s' % (K, F, pc.kft(m3), core.nmat(mapping), pc.kft(o3))
    if not np.array_equal(out, pc.loop_apply(mask, mapping)):
        return 'aligned[k, f] != mask[mapping[k, f], f]', 'apply:spec', coq
    cv = core.container_variants(lambda m_, p_: apply_mapping(m_, p_), [mask, mapping], out,
                                 lambda r_, e: np.array_equal(np.asarray(r_), e), recast_allow=('int',), recast_args=[1])
    if cv:
        return 'apply_mapping: ' + cv, 'apply:container', coq
    if pc.is_perm_field(mapping, K):
        if not pc.rows_multiset_equal(o3, m3):
            return 'per-bin multiset of rows changed', 'apply:multiset', coq
        if not np.allclose(o3.sum(0), m3.sum(0), rtol=1e-12, atol=1e-12):
            return 'class-axis sums changed', 'apply:colsum', coq
    return None, None, coq


def apply_case(rng, tier, i):
    K, F = int(rng.integers(1, 7)), int(rng.integers(1, 12))
    if i % 4 == 3:
        F = int(rng.integers(40, 130))          # realistic numbers of frequency bins (index arithmetic in narrow integer types)
    trail = [(), (int(rng.integers(1, 7)),), (int(rng.integers(1, 4)), 2)][int(rng.integers(0, 3))]
    mask = rng.normal(size=(K, F, *trail))
    if rng.random() < 0.2:
        mask = (mask > 0).astype(np.int8)
    if rng.random() < 0.8:
        mapping = np.stack([rng.permutation(K) for _ in range(F)], axis=1)
        mk = 'perm'
    else:
        mapping = rng.integers(0, K, (K, F))
        mk = 'anyindex'
    rp = {'fn': 'apply', 'mask': mask, 'mapping': mapping}
    fail, key, coq = evaluate_apply(rp)
    name = 'apply_mapping K=%d F=%d trail=%s %s %s' % (K, F, trail, mask.dtype, mk)
    return Case(name, coq=coq, pred_fail=fail, key=key, nontrivial=K >= 2 and F >= 2,
                digest_=core.digest(mask, mapping), sample={'name': name, 'mapping': core.small(mapping, 6)},
                replay=rp, kind='apply/' + mk)


# --------------------------------------------------------------------------- the three aligners
def build_aligner(rp):
    from pb_bss import permutation_alignment as pa
    w = rp['which']
    if w == 'dhtv':
        p = rp['params']
        return pc.make_dhtv(p['stft'], p['start'], p['width'], p['shift'], p['main'], p['sub'], rp['metric'], rp['algo'])
    if w == 'greedy':
        return pa.GreedyPermutationAlignment(rp['metric'], rp['algo'])
    return pa.OraclePermutationAlignment(rp['metric'], rp['algo'])


def coq_for_aligner(rp, mask, mapping, ref=None):
    K, F, T = mask.shape
    m, g = pc.MET[rp['metric']], core.cbool(rp['algo'] == 'greedy')
    mp = pc.mapping_fk(np.clip(mapping, 0, 99))
    if rp['which'] == 'dhtv':
        p = rp['params']
        return 'check_dhtv %d %s %d %d %d %d %d %d %d %d %s %s' % (
            m, g, K, T, p['stft'], p['start'], p['width'], p['shift'], p['main'], p['sub'], pc.bins(mask), mp)
    if rp['which'] == 'greedy':
        return 'check_greedy_chain %d %d %d %s %s' % (m, K, T, pc.bins(mask), mp)
    return 'check_oracle %d %s %d %d %s %s %s' % (m, g, K, T, pc.bins(mask), pc.bins(ref), mp)


def comparable(rp, K, T):
    """is the mapping a summation-order independent observable for this input?"""
    kind, metric = rp['kind'], rp['metric']
    if K > 5:
        return False
    if pc.tie_free(kind, metric, T, K):
        return True
    # integer-valued masks: multiply / euclidean scores are computed exactly by both sides
    return rp['which'] in ('greedy', 'oracle') and kind in ('binary', 'ints', 'zero') and metric != 'cos'


def evaluate_aligner(rp):
    mask = pc.ro(rp['mask'])
    ref = pc.ro(rp['ref']) if rp.get('ref') is not None else None
    K, F, T = mask.shape
    tag = '%s:%s:%s' % (rp['which'], rp['metric'], rp['algo'])
    b, br = mask.tobytes(), (ref.tobytes() if ref is not None else b'')
    args = (mask,) if ref is None else (mask, ref)
    try:
        al = build_aligner(rp)
        mapping = al.calculate_mapping(*args)
        aligned = al(*args)
    except Exception as e:
        return ('%s raised %s: %s on a valid mask (%s)' % (rp['which'], type(e).__name__, str(e)[:200], rp['kind']),
                'aligner:raises:%s:%s' % (tag, type(e).__name__), None)
    if mask.tobytes() != b or (ref is not None and ref.tobytes() != br):
        return 'caller array modified', 'aligner:mutates:' + tag, None
    coq = None
    if comparable(rp, K, T) and np.asarray(mapping).shape == (K, F) and F <= 129:
        coq = coq_for_aligner(rp, mask, np.asarray(mapping), ref)
    r = pc.check_alignment_result(mask, mapping, aligned, K)
    if r is not None:
        return '%s (%s, %s mask)' % (r[0], tag, rp['kind']), 'aligner:%s:%s' % (r[1], tag), coq
    # the same aligner object on other containers of the same values (layouts, integer typed binary masks, buffers refilled
    # in place since an earlier call)
    # (only where the mapping is an observable that does not depend on the summation order: tie-free masks)
    cv = None
    if pc.tie_free(rp['kind'], rp['metric'], T, K):
        cv = core.container_variants(lambda *a_: al.calculate_mapping(*a_), list(args), np.asarray(mapping),
                                     lambda r_, e: np.array_equal(np.asarray(r_), e), recast_allow=('int',))
    if cv:
        return '%s: %s' % (rp['which'], cv), 'aligner:container:' + tag, coq
    return None, None, coq


def aligner_case(rng, tier, i, which=None):
    big = tier == 'thorough'
    which = which or ['dhtv', 'dhtv', 'greedy', 'oracle'][int(rng.integers(0, 4))]
    kind = KINDS[int(rng.integers(0, len(KINDS)))] if rng.random() < 0.6 else 'cont'
    metric = pc.METRICS[int(rng.integers(0, 3))]
    algo = 'greedy' if rng.random() < 0.55 else 'optimal'
    K = int(rng.integers(1, 7))
    if algo == 'optimal' and K == 6 and which == 'dhtv':
        K = 5
    F = pc.odd_F(rng, 1, 61 if big else 33)
    if K >= 5 and algo == 'optimal':
        F = min(F, 9)
    T = int(rng.integers(1, 13))
    if i % 12 == 11:
        # realistic numbers of frequency bins (block-wise processing, remainders): predicates only, no Coq literal
        which, kind, K = ['greedy', 'oracle', 'greedy'][(i // 12) % 3], 'cont', int(rng.integers(2, 4))
        F, T = int(rng.choice([301, 333, 515, 771])), int(rng.integers(3, 7))
    mask = pc.gen_mask(rng, K, F, T, kind)
    rp = {'fn': 'aligner', 'which': which, 'metric': metric, 'algo': algo, 'kind': kind, 'mask': mask}
    if which == 'dhtv':
        st, w, sh = pc.plan_params(rng, F)
        rp['params'] = {'stft': pc.stft_of(F), 'start': st, 'width': w, 'shift': sh,
                        'main': int(rng.integers(0, 6)), 'sub': int(rng.integers(0, 4))}
    if which == 'oracle':
        rp['ref'] = pc.gen_mask(rng, K, F, T, kind if rng.random() < 0.5 else 'cont')
    fail, key, coq = evaluate_aligner(rp)
    name = '%s K=%d F=%d T=%d %s %s %s %s' % (which, K, F, T, kind, metric, algo, rp.get('params', ''))
    nontrivial = (K >= 2 and F >= 3) or kind in ('tied', 'zero', 'const')
    return Case(name, coq=coq, pred_fail=fail, key=key, nontrivial=nontrivial,
                digest_=core.digest(mask, rp.get('ref'), which, metric, algo, sorted(rp.get('params', {}).items())),
                sample={'name': name, 'mask': core.small(mask, 4)}, replay=rp, kind='%s/%s' % (which, kind))


# --------------------------------------------------------------------------- inline EM alignment
def evaluate_inline(rp):
    from pb_bss.distribution.mixture_model_utils import apply_inline_permutation_alignment
    aff, quad = pc.ro(rp['aff']), pc.ro(rp['quad'])
    F, K, T = aff.shape
    tag = '%s:%s:%s' % (rp['which'], rp['metric'], rp['algo'])
    b1, b2 = aff.tobytes(), quad.tobytes()
    wca = tuple(rp['wca']) if isinstance(rp['wca'], list) else rp['wca']
    try:
        al = build_aligner(rp)
        a2, q2 = apply_inline_permutation_alignment(aff, quadratic_form=quad, weight_constant_axis=wca, aligner=al)
        a3 = apply_inline_permutation_alignment(aff, quadratic_form=None, weight_constant_axis=wca, aligner=al)
        mapping = build_aligner(rp).calculate_mapping(np.transpose(aff, (1, 0, 2)))
    except Exception as e:
        return 'inline alignment raised %s: %s' % (type(e).__name__, str(e)[:200]), 'inline:raises:' + tag, None
    if aff.tobytes() != b1 or quad.tobytes() != b2:
        return 'caller array modified', 'inline:mutates', None
    coq = None
    if a2.shape == aff.shape and q2.shape == quad.shape and pc.tie_free(rp['kind'], rp['metric'], T, K) and K <= 5:
        m, g = pc.MET[rp['metric']], core.cbool(rp['algo'] == 'greedy')
        tail = '%s %s %s %s' % (pc.bins_fkt(aff), pc.bins_fkt(quad), pc.bins_fkt(a2), pc.bins_fkt(q2))
        if rp['which'] == 'dhtv':
            p = rp['params']
            coq = 'check_inline_dhtv %d %s %d %d %d %d %d %d %d %d %s' % (
                m, g, K, T, p['stft'], p['start'], p['width'], p['shift'], p['main'], p['sub'], tail)
        else:
            coq = 'check_inline_chain %d %d %d %s' % (m, K, T, tail)
    if a2.shape != aff.shape or q2.shape != quad.shape:
        return 'result shapes %s %s' % (a2.shape, q2.shape), 'inline:shape', coq
    if not pc.is_perm_field(mapping, K) or np.asarray(mapping).shape != (K, F):
        return 'mapping is not a permutation per bin', 'inline:notperm:' + tag, coq
    for f in range(F):
        for k in range(K):
            if not np.array_equal(a2[f, k], aff[f, mapping[k, f]]):
                return 'affiliation[f=%d, k=%d] is not affiliation_in[f, mapping[k, f]]' % (f, k), 'inline:aff:' + tag, coq
            if not np.array_equal(q2[f, k], quad[f, mapping[k, f]]):
                return ('quadratic_form[f=%d, k=%d] is not reordered by the mapping applied to the affiliation'
                        % (f, k)), 'inline:quad:' + tag, coq
    if not np.array_equal(a3, a2):
        return 'affiliation differs when no quadratic form is passed', 'inline:noquad', coq
    if not np.allclose(a2.sum(1), aff.sum(1), rtol=1e-12, atol=1e-12):
        return 'class-axis sums of the affiliation changed', 'inline:colsum', coq
    return None, None, coq


def inline_case(rng, tier, i):
    which = 'dhtv' if rng.random() < 0.6 else 'greedy'
    metric = pc.METRICS[int(rng.integers(0, 3))]
    algo = 'greedy' if rng.random() < 0.6 else 'optimal'
    kind = 'unit' if rng.random() < 0.7 else KINDS[int(rng.integers(0, len(KINDS)))]
    K, F, T = int(rng.integers(1, 5)), pc.odd_F(rng, 1, 21), int(rng.integers(1, 9))
    aff = np.ascontiguousarray(np.transpose(pc.gen_mask(rng, K, F, T, kind), (1, 0, 2)))
    quad = rng.random((F, K, T)) * 10 + 0.1
    rp = {'fn': 'inline', 'which': which, 'metric': metric, 'algo': algo, 'kind': kind, 'aff': aff, 'quad': quad,
          'wca': [-3, (-3,), (-3, -1)][int(rng.integers(0, 3))]}
    if which == 'dhtv':
        st, w, sh = pc.plan_params(rng, F)
        rp['params'] = {'stft': pc.stft_of(F), 'start': st, 'width': w, 'shift': sh,
                        'main': int(rng.integers(1, 5)), 'sub': int(rng.integers(0, 3))}
    fail, key, coq = evaluate_inline(rp)
    name = 'inline %s K=%d F=%d T=%d %s %s %s' % (which, K, F, T, kind, metric, algo)
    return Case(name, coq=coq, pred_fail=fail, key=key, nontrivial=K >= 2 and F >= 3,
                digest_=core.digest(aff, quad, which, metric, algo, sorted(rp.get('params', {}).items())),
                sample={'name': name, 'aff': core.small(aff, 4)}, replay=rp, kind='inline/' + which)


# --------------------------------------------------------------------------- integration-model search
def _posterior(weight, lp):
    a = np.exp(lp - lp.max(axis=-2, keepdims=True)) * weight
    return a / np.maximum(a.sum(axis=-2, keepdims=True), pc.TINY)


def _aux(lp):
    c = np.exp(lp - lp.max(axis=-2, keepdims=True))
    c = c / np.maximum(c.sum(axis=-2, keepdims=True), pc.TINY)
    return float((c * lp).sum())


def evaluate_ipa(rp):
    from pb_bss.distribution.mixture_model_utils import \
        log_pdf_to_affiliation_for_integration_models_with_inline_pa as ipa
    weight, spatial, spectral = pc.ro(rp['weight']), pc.ro(rp['spatial']), pc.ro(rp['spectral'])
    F, K, T = spatial.shape
    bs = (weight.tobytes(), spatial.tobytes(), spectral.tobytes())
    try:
        out = ipa(weight, spatial, spectral)
    except Exception as e:
        return 'raised %s: %s' % (type(e).__name__, str(e)[:200]), 'ipa:raises', None
    if (weight.tobytes(), spatial.tobytes(), spectral.tobytes()) != bs:
        return 'caller array modified', 'ipa:mutates', None
    if out.shape != (F, K, T):
        return 'result shape %s' % (out.shape,), 'ipa:shape', None
    wb = np.broadcast_to(weight, spatial.shape)
    perms = list(itertools.permutations(range(K)))
    parts = []
    for f in range(F):
        aux = [_aux(spatial[f, list(p)] + spectral[f]) for p in perms]
        scale = max(1.0, max(abs(a) for a in aux))
        match = [n for n, p in enumerate(perms)
                 if np.allclose(out[f], _posterior(wb[f], spatial[f, list(p)] + spectral[f]), rtol=1e-10, atol=1e-13)]
        if not match:
            return ('affiliation of frequency %d is not the posterior of spatial[perm] + spectral for any class '
                    'permutation' % f), 'ipa:notperm', None
        best = max(aux[n] for n in match)
        if best < aux[0] - 1e-9 * scale:
            return ('frequency %d: chosen permutation %s has auxiliary value %.12g, worse than the identity (%.12g)'
                    % (f, perms[match[0]], best, aux[0])), 'ipa:worse_than_identity', None
        if best < max(aux) - 1e-9 * scale:
            return ('frequency %d: chosen permutation %s (aux %.12g) is not a maximiser (max %.12g)'
                    % (f, perms[match[0]], best, max(aux))), 'ipa:not_max', None
        srt = sorted(aux, reverse=True)
        gap_ok = K == 1 or (srt[0] - srt[1]) > 1e-7 * scale
        if len(match) == 1 and gap_ok and len(parts) < 2:
            parts.append('check_ipa %d %d %s %s %s' % (K, T, core.fmat(spatial[f]), core.fmat(spectral[f]),
                                                        core.nlist(perms[match[0]])))
    if not np.allclose(out.sum(1), 1.0, rtol=1e-9, atol=1e-9):
        return 'posteriors do not sum to one over the classes', 'ipa:sum', None
    return None, None, ('allR [' + '; '.join(parts) + ']') if parts else None


def ipa_case(rng, tier, i):
    K, F, T = int(rng.integers(1, 5)), int(rng.integers(1, 4)), int(rng.integers(1, 8))
    sc = float(rng.choice([0.5, 3.0, 20.0]))
    spatial = rng.normal(size=(F, K, T)) * sc
    spectral = rng.normal(size=(F, K, T)) * sc
    if rng.random() < 0.5:
        # a permuted copy of the spectral evidence: a non-identity permutation is clearly the best
        f_perm = [rng.permutation(K) for _ in range(F)]
        spatial = np.stack([spectral[f, f_perm[f]] for f in range(F)]) * float(rng.choice([1.0, 2.0])) \
            + 0.1 * rng.normal(size=(F, K, T))
    if i % 3 == 0:
        # frames of very different likelihood level within one bin (a loud onset next to near-silence): a per-frame constant
        # in the log-densities changes neither the posterior of the frame nor the best permutation of the bin
        spectral = spectral + rng.choice([0.0, -2000.0, 1800.0], size=(F, 1, T))
    w = rng.random((K, 1)) + 0.1
    w /= w.sum()
    weight = w if rng.random() < 0.6 else np.broadcast_to(w, (F, K, 1)).copy()
    rp = {'fn': 'ipa', 'weight': weight, 'spatial': spatial, 'spectral': spectral}
    fail, key, coq = evaluate_ipa(rp)
    name = 'integration-pa K=%d F=%d T=%d scale=%g' % (K, F, T, sc)
    return Case(name, coq=coq, pred_fail=fail, key=key, nontrivial=K >= 2 and T >= 2,
                digest_=core.digest(weight, spatial, spectral), sample={'name': name}, replay=rp, kind='ipa')


# --------------------------------------------------------------------------- driver
def cases(rng, tier):
    q = tier == 'quick'
    out = grid_cases(tier)
    for i in range(25 if q else 250):
        out.append(matrix_case(rng, tier, i))
    for i in range(8 if q else 80):
        out.append(intmin_case(rng, tier, i))
    for i in range(12 if q else 120):
        out.append(apply_case(rng, tier, i))
    for i in range(70 if q else 700):
        out.append(aligner_case(rng, tier, i))
    for i in range(14 if q else 140):
        out.append(inline_case(rng, tier, i))
    for i in range(14 if q else 140):
        out.append(ipa_case(rng, tier, i))
    return out


def search(rng, tier, hints):
    """after a break: look for an input on which one of the property's own predicates fails"""
    gens = [aligner_case, matrix_case, inline_case, apply_case, ipa_case]
    for c in grid_cases('thorough'):
        if c.pred_fail:
            return [c]
    for i in range(600 if tier == 'quick' else 4000):
        c = gens[i % len(gens)](rng, 'thorough', i)
        if c.pred_fail:
            return [c]
    return []


EVAL = {'intmin': evaluate_intmin, 'grid': evaluate_grid, 'matrix': evaluate_matrix, 'apply': evaluate_apply, 'aligner': evaluate_aligner,
        'inline': evaluate_inline, 'ipa': evaluate_ipa}


def replay(payload):
    rp = payload['replay']
    return EVAL[rp['fn']](rp)[0]
