"""C01 -- affiliations are valid distributions and equal the model's Bayes posterior.
Correspondence: (A) log_pdf_to_affiliation directly, (B) predict of the seven mixture models fed with the
implementation's own component log_pdf and stored weights, (D) initializers -- each against Model/Posterior.v
on PrimFloat, column by column.  Predicates (independent NumPy): shape, finite, [0,1], sum to one, exact zeros
under a source-activity mask, Bayes' rule via logsumexp, on regular and degenerate streams, and on every
in-loop E-step recorded through the wrapped _m_step."""
import numpy as np
from harness import core, mm
from harness.core import Case

PID = 'C01'
REQUIRES = ['Run.C01']
RULE = ('direct posterior routine (K 1..6, log-pdfs up to +-1e3, zero weights, masks, eps, float32), predict of all 7 '
        'mixture models x tying/saliency/mask/eps/covariance options after 1..3 EM iterations, degenerate stream (zero, '
        'repeated, rank-deficient frames, N<D, scales 1e+-150, one-hot starts), initializers; non-trivial: K>=2, weights '
        'not all equal, some posterior strictly inside (0.01,0.99); distinct by SHA-1 of inputs/options')
NOT_PROVED = ('binary64 overflow/underflow/NaN freedom upstream of the posterior (observed on the PrimFloat instance and by '
              'the predicates, not proved); component log_pdf values enter as given numbers')
ASSUMPTIONS = ['tiny = np.finfo(dtype).tiny read per case', 'RNG draws of the initializers are inputs (re-seeded)']

RT64 = '0x1p-30'
RT32 = '0x1p-10'     # float32 inputs: the implementation subtracts the maximum in float32 (argument error ~1e-4 at |l| ~ 1e3)


def _cols(rng, lead_shape, N, maxcols):
    idx = [li + (n,) for li in np.ndindex(*lead_shape) for n in range(N)]
    if len(idx) > maxcols:
        sel = rng.choice(len(idx), maxcols, replace=False)
        idx = [idx[int(i)] for i in sel]
    return idx


def coq_cols(rng, lp, w, mask, out, eps, tiny, rtol, maxcols=6, single=False):
    """Coq expression comparing sampled observation columns.  single: the implementation ran in single precision while the
    model is evaluated in binary64 - a column is then compared only where no term depends on the float32 exp range, i.e. where
    an active class with weight lies within 60 nats of the largest active log-pdf (columns without mass are outside the
    property's precondition anyway; the NumPy predicates treat them the same way)"""
    K, N = lp.shape[-2:]
    lead = lp.shape[:-2]
    cols = []
    for ix in _cols(rng, lead, N, maxcols):
        li, n = ix[:-1], ix[-1]
        b = mask[li][:, n] if mask is not None else np.ones(K, bool)
        if single:
            lc = np.where(b, np.asarray(lp[li][:, n], float), -np.inf)
            wc = np.asarray(np.broadcast_to(w, lp.shape)[li][:, n], float) if np.ndim(w) else np.full(K, float(w))
            if not (b & (wc > 0) & (lc >= lc.max() - 60.0)).any():
                continue
        cols.append('(%s, %s, %s, %s)' % (core.flist(w[li][:, n]), core.flist(lp[li][:, n]), core.blist(b),
                                          core.flist(out[li][:, n])))
    return 'check_posterior_cols %s %d %s %s [%s]' % (rtol, K - 1, core.fhex(tiny), core.fhex(eps), '; '.join(cols))


def validity(out, K, N, lead, mask=None, eps=0.0, label='posterior', mass=None, single=False):
    """the property's range/normalisation predicates; returns failure text or None.
    mass: optional boolean (..., N): columns in which some active class has non-zero weight (the property's
    quantifier: 'whenever every class has non-zero mass'); other columns must only be finite, in range and
    sum to at most one."""
    if tuple(out.shape) != (*lead, K, N):
        return '%s has shape %s, documented (..., K, N) = %s' % (label, out.shape, (*lead, K, N))
    if not np.all(np.isfinite(out)):
        return '%s contains NaN/Inf' % label
    if out.min() < 0 or out.max() > 1:
        return '%s outside [0,1]: min %.3g max %.3g' % (label, out.min(), out.max())
    s = out.sum(-2)
    # single: the array may be float64 typed but computed from single-precision observations
    tol = K * eps + (1e-5 if (out.dtype == np.float32 or single) else 1e-9)
    if mass is None:
        mass = np.ones(s.shape, bool)
    if np.any(s > 1 + tol):
        return '%s sums to more than one over classes (max %.6g)' % (label, s.max())
    if mask is not None:
        if np.any(out[~np.broadcast_to(mask, out.shape)] != 0):
            return '%s non-zero for a source the activity mask declares inactive' % label
        active = np.broadcast_to(mask, out.shape).any(-2)
        sel = active & mass
        if np.any(np.abs(s[sel] - 1) > tol):
            return '%s does not sum to one over classes (max dev %.3g)' % (label, np.abs(s[sel] - 1).max())
        if np.any(s[~active] != 0):
            return '%s not all-zero where every source is inactive' % label
    elif np.any(np.abs(s[mass] - 1) > tol):
        return '%s does not sum to one over classes (max dev %.3g)' % (label, np.abs(s[mass] - 1).max())
    return None


# ----------------------------------------------------------------------------- A: direct routine
_DM = [0]


def case_direct(rng, tier, i):
    from pb_bss.distribution.mixture_model_utils import log_pdf_to_affiliation
    K = int(rng.integers(1, 7))
    N = int(rng.integers(1, 9))
    lead = tuple(int(v) for v in rng.integers(1, 4, int(rng.integers(0, 3))))
    dt = np.float32 if rng.random() < 0.15 else np.float64
    mag = float(rng.choice([1.0, 30.0, 1e3]))
    lp = (rng.normal(size=(*lead, K, N)) * mag).astype(dt)
    wshape = [(*lead, K, 1), (*lead, K, N), (K, 1)] + ([(lead[0],) + (1,) * (len(lead) - 1) + (K, N)] if lead else [])
    ws = wshape[int(rng.integers(0, len(wshape)))]
    w = rng.random(ws)
    if rng.random() < 0.25 and K > 1:
        w[..., int(rng.integers(0, K)), :] = 0.0
    w = (w / np.maximum(w.sum(-2, keepdims=True), 1e-300)).astype(dt)
    mask = None
    if rng.random() < 0.4:
        mask = rng.random((*lead, K, N)) < 0.7
        if rng.random() < 0.5:
            mask[..., :, 0] = False
    _DM[0] += 1
    if _DM[0] % 5 == 0 and K >= 2:
        # every run: an INACTIVE class whose log-pdf exceeds every active one by far more than the exp range (a frame that
        # belongs to a source the mask switches off); every class keeps weight
        mask = np.ones((*lead, K, N), bool)
        off = rng.integers(0, K, size=(*lead, N))
        np.put_along_axis(mask, off[..., None, :], False, axis=-2)
        lp = lp.copy()
        lp[~mask] += dt(float(rng.choice([200.0, 2000.0, 1e5])))
        w = np.full(ws, 1.0 / K, dtype=dt) if _DM[0] % 10 == 0 else np.maximum(w, dt(0.05))
    eps = float(rng.choice([0.0, 0.0, 1e-10, 1e-3]))
    for a in (lp, w):
        a.setflags(write=False)
    rp = {'fn': 'direct', 'weight': w, 'log_pdf': lp, 'mask': mask, 'eps': eps}
    name = 'log_pdf_to_affiliation K=%d N=%d lead=%s dtype=%s mag=%g wshape=%s mask=%s eps=%g' % (
        K, N, lead, dt.__name__, mag, ws, mask is not None, eps)
    fail, key, coq = eval_direct(rp, rng)
    nt = K >= 2 and float(np.ptp(w)) > 0
    return Case(name, coq=coq, pred_fail=fail, key=key, nontrivial=nt, digest_=core.digest(w, lp, mask, eps),
                sample={'name': name, 'log_pdf': core.small(lp, 4)}, replay=rp, kind='direct')


def eval_direct(rp, rng=None):
    from pb_bss.distribution.mixture_model_utils import log_pdf_to_affiliation
    rng = rng or np.random.default_rng(0)
    w, lp, mask, eps = np.array(rp['weight']), np.array(rp['log_pdf']), rp['mask'], rp['eps']
    K, N = lp.shape[-2:]
    lead = lp.shape[:-2]
    b0 = (w.tobytes(), lp.tobytes())
    try:
        out = log_pdf_to_affiliation(w, lp, source_activity_mask=mask, affiliation_eps=eps)
    except Exception as e:
        return 'log_pdf_to_affiliation raised %s: %s' % (type(e).__name__, str(e)[:200]), 'direct:raises', None
    if (w.tobytes(), lp.tobytes()) != b0:
        return 'caller array modified', 'direct:mutates', None
    wb = np.broadcast_to(w, lp.shape).astype(float)
    # the predicates apply where the routine's own contract holds (theorem C01_posterior_floor_inactive): some
    # active class with non-negligible weight lies within exp-range of the largest log-pdf AMONG THE ACTIVE classes (the
    # log-pdfs of inactive classes do not matter since fix 'masked scaling'); columns without mass are compared with the
    # model only
    gap = 60.0 if lp.dtype == np.float32 else 600.0
    act = np.broadcast_to(mask, lp.shape) if mask is not None else np.ones(lp.shape, bool)
    lpa = np.where(act, lp.astype(float), -np.inf)
    near = act & (wb >= 1e-30) & (lpa >= lpa.max(-2, keepdims=True) - gap)
    mass = near.any(-2) | ~act.any(-2)
    chk_mask = mask if mask is not None else None
    if eps == 0:
        # columns where every active class has zero weight are outside the quantifier (no mass): exclude
        fail = validity(out, K, N, lead, mask=mask, eps=eps) if mass.all() else None
        if fail is None and mass.all():
            ref = mm.bayes(lp.astype(float), wb, mask)
            tol = 1e-5 if lp.dtype == np.float32 else 1e-9
            if np.abs(out - ref).max() > tol:
                fail = 'posterior differs from Bayes rule by %.3g' % np.abs(out - ref).max()
        if fail:
            return fail, 'direct:invalid', None
    else:
        if not np.all(np.isfinite(out)) or out.min() < 0 or out.max() > 1:
            return 'clipped posterior outside [0,1] or non-finite', 'direct:clip', None
    rtol = RT32 if lp.dtype == np.float32 else RT64
    coq = coq_cols(rng, lp.astype(float), wb, mask, out.astype(float), eps, mm.tiny_of(lp), rtol)
    return None, None, coq


# ----------------------------------------------------------------------------- B: models
def degenerate(rng, name, data, mode):
    key = 'observation' if name in mm.INTEGRATION else 'y'
    y = data[key].copy()
    N = y.shape[-2]
    if mode == 'zero':
        y[..., :max(1, N // 4), :] = 0
    elif mode == 'repeat':
        y[..., 1::2, :] = y[..., 0:1, :]
    elif mode == 'rank1':
        y[...] = y[..., :1, :] * (1 + np.arange(N))[:, None]
    elif mode == 'big':          # largest magnitude exactly at the upper end of the stated range 1e150
        y *= 1e150 / np.abs(y).max()
    elif mode == 'small':        # smallest non-zero magnitude at the lower end 1e-150
        y *= 1e-150 / np.abs(y)[np.abs(y) > 0].min()
    elif mode == 'mixedscale':   # per-frame gains spread over the whole range, entries stay within 1e-150..1e150
        y = y / np.abs(y).max(-1, keepdims=True)
        y = y * 10.0 ** rng.integers(-140, 150, size=y.shape[:-1] + (1,))
    data = dict(data)
    data[key] = y
    return data


DEGEN_MODES = ['zero', 'repeat', 'rank1', 'big', 'small', 'mixedscale', 'fewframes']


def case_model(rng, tier, i, degen=False, force_name=None, force_mode=None, force_single=None, scale_few=False):
    name = force_name or mm.MODELS[int(rng.integers(0, len(mm.MODELS)))]
    K = int(rng.integers(1, 5)) if name != 'cacgmm' else int(rng.integers(2, 5))
    D = int(rng.integers(2, 6))
    N = int(rng.integers(2 * K + 2, 25)) if not degen else int(rng.integers(1, 12))
    if degen and force_mode in ('big', 'small', 'fewframes', 'mixedscale') and (rng.random() < 0.6 or (i // 49) % 2 == 0):
        N = int(rng.integers(1, D + 1))          # fewer frames than channels: floored eigenvalues meet extreme scales
        # (always in the first round of the stratified stream, i.e. in every quick run, for every model)
    if force_single and i % 2 == 0:
        D = int(rng.integers(6, 9))        # many channels: products of floored eigenvalues leave the single-precision range
        if force_mode == 'fewframes':
            D, N = 8, int(rng.integers(2, 4))    # at least five eigenvalues of every class covariance sit on the floor
            K = max(K, 2)
    if name in mm.INTEGRATION:
        lead = (int(rng.integers(1, 4)),)
    else:
        lead = tuple(int(v) for v in rng.integers(1, 4, int(rng.integers(0, 3))))
    if name == 'cbmm':
        N = min(N, 12)
        D = min(D, 4)
    if scale_few:
        # extreme scale meets floored eigenvalues: fewer frames than channels, magnitudes at the end of the stated range
        K, D, N = int(rng.integers(2, 4)), int(rng.integers(4, 7)), int(rng.integers(2, 4))
        lead = (int(rng.integers(2, 4)),)
    data = mm.make_data(rng, name, K, D, N, lead, separation=float(rng.choice([0.5, 2.0, 8.0])))
    mode = None
    fit_data = None
    if degen:
        mode = force_mode or str(rng.choice(DEGEN_MODES))
        clean = data
        data = degenerate(rng, name, data, mode)
        if mode in ('zero', 'repeat', 'rank1', 'mixedscale') and (rng.random() < 0.5 or (force_single and mode == 'zero')):
            fit_data = clean      # a model fitted on one segment is applied to another one that contains the degenerate frames
    style = 'onehot' if (degen and rng.random() < 0.4 and N >= K) else ['positive', 'dirichlet'][int(rng.integers(0, 2))]
    init = mm.make_init(rng, K, N, lead, style)
    opts = mm.sample_options(rng, name, K, N, lead, with_aligner=(rng.random() < 0.2))
    iters = int(rng.integers(1, 4))
    if scale_few:
        opts = {'weight_constant_axis': (-1,)}
        if name == 'gcacgmm':
            opts['covariance_type'] = ['spherical', 'diagonal'][int(rng.integers(0, 2))]     # the spectral stream stays regular
        style, init = 'dirichlet', mm.make_init(rng, K, N, lead, 'dirichlet')
    if force_single and i % 2 == 0:
        opts.pop('eigenvalue_floor', None)       # the documented default floor (1e-10)
        if force_mode == 'fewframes':
            iters = 1                            # predict right after the first M-step (later M-steps assert on their own input)
            opts.pop('saliency', None)           # (a float64 saliency would lift the whole M-step to double precision)
    _MCOUNT[0] += 1
    single = _MCOUNT[0] % 4 == 0 and (mode in (None, 'zero', 'repeat', 'rank1', 'fewframes'))
    if force_single is not None:
        single = force_single
    if single:
        # "single or double precision": observations AND the initial affiliation in single precision (only then does the
        # fitted model itself carry single-precision parameters)
        cast = lambda dd: {k: (v.astype(np.complex64) if np.iscomplexobj(v) else v.astype(np.float32)) if k != 'labels' else v
                           for k, v in dd.items()}
        data = cast(data)
        fit_data = cast(fit_data) if fit_data is not None else None
        init = init.astype(np.float32)
    reassign = _MCOUNT[0] % 3 == 0
    if not degen and not single and _MCOUNT[0] % 5 == 1:
        # "all initial affiliations with positive class mass": hard masks are naturally boolean / integer typed and
        # need not be one-hot (overlapping masks, vote counts)
        b = rng.random(init.shape) < 0.5
        b[..., 0, :] |= ~b.any(-2)
        for k in range(K):
            b[..., k, k % N] = True            # every class keeps mass
        init = b if rng.random() < 0.5 else b.astype(np.int64) * rng.integers(1, 4, size=b.shape)
        style = 'mask/' + str(init.dtype)
    use_num_classes = (not degen) and rng.random() < 0.1 and 'source_activity_mask' not in opts
    seed = int(rng.integers(0, 2 ** 31))
    rp = {'fn': 'model', 'model': name, 'data': {k: v for k, v in data.items() if k != 'labels'}, 'init': init,
          'opts': {k: v for k, v in opts.items() if k != 'inline_permutation_aligner'},
          'aligner': 'inline_permutation_aligner' in opts, 'iterations': iters,
          'num_classes': K if use_num_classes else None, 'np_seed': seed, 'degenerate': mode, 'reassign': reassign}
    if fit_data is not None:
        rp['fit_data'] = {k: v for k, v in fit_data.items() if k != 'labels'}
    label = 'predict %s K=%d D=%d N=%d lead=%s iters=%d init=%s%s%s degenerate=%s opts=%s' % (
        name, K, D, N, lead, iters, 'num_classes' if use_num_classes else style, '/single' if single else '',
        '/reassign' if reassign else '', (mode + '@predict-only') if fit_data is not None else mode, mm.describe_options(opts))
    fail, key, coq, raised, nt = eval_model(rp, rng)
    return Case(label, coq=coq, pred_fail=fail, key=key, nontrivial=nt,
                digest_=core.digest(label, *[v for v in rp['data'].values()], init),
                sample={'name': label}, replay=rp, raised=raised, kind=('degenerate/' if degen else 'model/') + name)


_MCOUNT = [0]
EXPLICIT = (AssertionError, ValueError, NotImplementedError, np.linalg.LinAlgError, FloatingPointError)


def eval_model(rp, rng=None):
    rng = rng or np.random.default_rng(0)
    name = rp['model']
    data = {k: np.array(v) for k, v in rp['data'].items()}
    for v in data.values():
        v.setflags(write=False)
    opts = dict(rp['opts'])
    if isinstance(opts.get('weight_constant_axis'), list) and name in mm.INTEGRATION:
        opts['weight_constant_axis'] = tuple(opts['weight_constant_axis'])
    if rp.get('aligner'):
        from pb_bss.permutation_alignment import GreedyPermutationAlignment
        opts['inline_permutation_aligner'] = GreedyPermutationAlignment(similarity_metric='cos')
    init = np.array(rp['init'])
    init.setflags(write=False)
    K, N = init.shape[-2:]
    lead = init.shape[:-2]
    deg = rp.get('degenerate')
    tag = '%s:%s' % (name, deg or 'regular')
    before = {k: v.tobytes() for k, v in data.items()}
    try:
        np.random.seed(rp['np_seed'])
        fdata = data
        if rp.get('fit_data') is not None:
            fdata = {k: np.array(v) for k, v in rp['fit_data'].items()}
        if rp.get('num_classes'):
            model, trace = mm.fit(name, fdata, None, num_classes=rp['num_classes'], iterations=rp['iterations'], **opts)
        else:
            model, trace = mm.fit(name, fdata, init, iterations=rp['iterations'], **opts)
        pk = {}
        mask = opts.get('source_activity_mask')
        if name == 'cacgmm' and mask is not None:
            pk['source_activity_mask'] = mask
        aff = mm.predict(name, model, data, **pk)
    except Exception as e:
        # the property: 'a call either raises an explicit exception or returns such an array'.  Deliberate exceptions
        # (assertions, sklearn's ill-defined-covariance ValueError, LinAlgError) are accepted outcomes; exceptions that
        # escape from NumPy because shapes or types went wrong are not
        if core.deliberate_exception(e):
            return None, None, None, '%s: %s' % (type(e).__name__, str(e)[:120]), False
        return ('fit/predict raised %s (not an explicit, deliberate exception): %s' % (type(e).__name__, str(e)[:300]),
                'model:crash:%s:%s' % (tag, type(e).__name__), None, None, False)
    if any(data[k].tobytes() != before[k] for k in data):
        return 'caller array modified by fit/predict', 'model:mutates:%s' % name, None, None, False
    try:
        wfull = mm.stored_weight(name, model, (*lead, K, N))
        bm = np.broadcast_to(mask, wfull.shape) if (mask is not None and name == 'cacgmm') else np.ones(wfull.shape, bool)
        # the property's precondition: every (active) class has non-zero mass at that observation
        mass = ((wfull > 0) | ~bm).all(-2) & bm.any(-2)
    except Exception:
        mass = None
    single = any(v.dtype in (np.float32, np.complex64) for v in data.values())
    fail = validity(aff, K, N, lead, mask=mask if name == 'cacgmm' else None, eps=0.0, label='predict(%s)' % name, mass=mass,
                    single=single)
    if fail:
        return fail, 'model:invalid:%s' % tag, None, None, False
    # every in-loop E-step
    eps = float(opts.get('affiliation_eps', 0.0))
    for it, rec in enumerate(trace[1:], 1):
        f2 = validity(rec['affiliation'], K, N, lead, mask=None, eps=eps, label='E-step %d of %s' % (it, name), single=single) \
            if mask is None else None
        if f2:
            return f2, 'model:estep:%s' % tag, None, None, False
    # Bayes' rule with the implementation's own component log-pdfs and stored weights
    try:
        lp, w = mm.components(name, model, data)
    except Exception as e:
        return 'component log_pdf raised %s: %s' % (type(e).__name__, str(e)[:200]), 'model:logpdf:%s' % tag, None, None, False
    if not np.all(np.isfinite(lp)):
        if deg:
            return None, None, None, 'non-finite component log_pdf on degenerate input (predict still valid)', False
        return 'component log_pdf not finite', 'model:logpdf-nonfinite:%s' % tag, None, None, False
    m2 = mask if name == 'cacgmm' else None
    ref = mm.bayes(lp, w, m2)
    single = any(v.dtype in (np.float32, np.complex64) for v in data.values())
    btol = 2e-3 if single else 1e-9
    rtol = RT32 if single else RT64
    lp = np.asarray(lp, dtype=float)
    # (the property's precondition "every class has non-zero mass": columns in which a class has zero stored weight are
    # outside the quantifier - a zero-weight class can dominate the maximum by more than the exp range of the precision)
    inq = np.ones(aff.shape[:-2] + aff.shape[-1:], bool) if mass is None else np.broadcast_to(mass, aff.shape[:-2] + aff.shape[-1:])
    bdev = np.where(inq[..., None, :], np.abs(aff - ref), 0.0)
    if bdev.max() > btol:
        return ('predict(%s) differs from Bayes rule on its own log_pdf and weights by %.3g' % (name, bdev.max()),
                'model:bayes:%s' % name, coq_cols(rng, lp, w, m2, np.asarray(aff, float), 0.0, mm.tiny_of(lp), rtol, single=single), None, False)
    if rp.get('reassign') and K >= 2:
        # one model object used more than once: after new priors are stored, predict must be Bayes' rule for THOSE weights
        # (tests/test_distribution/test_cacgmm.py relabels a fitted model this way)
        try:
            w_old = np.asarray(model.weight)
            if name in mm.INTEGRATION:
                from pb_bss.utils import unsqueeze
                full = unsqueeze(w_old, model.weight_constant_axis)          # ones at the tied axes, class axis -2
                fnew = rng.uniform(0.05, 1.0, size=full.shape)
                fnew = fnew / fnew.sum(-2, keepdims=True)
                w_new = np.squeeze(fnew, axis=model.weight_constant_axis)
            else:
                w_new = rng.uniform(0.05, 1.0, size=w_old.shape)
                w_new = w_new / w_new.sum(axis=(-2 if w_old.ndim >= 2 else 0), keepdims=True)
            model.weight = w_new.astype(w_old.dtype)
            aff2 = mm.predict(name, model, data, **pk)
            lp2, w2 = mm.components(name, model, data)
            ref2 = mm.bayes(np.asarray(lp2, float), w2, m2)
            if aff2.shape != aff.shape or not np.all(np.isfinite(aff2)) or np.abs(aff2 - ref2).max() > btol:
                return ('second predict after storing new mixture weights in the model is not Bayes rule for the stored weights '
                        '(max dev %.3g)' % (np.abs(aff2 - ref2).max() if aff2.shape == ref2.shape else float('nan'))), \
                    'model:bayes-after-reassign:%s' % name, None, None, False
        except Exception as e:
            if not core.deliberate_exception(e):
                return ('predict after storing new weights raised %s: %s' % (type(e).__name__, str(e)[:200]),
                        'model:reassign-crash:%s' % name, None, None, False)
    nt = K >= 2 and float(np.ptp(w)) > 1e-6 and bool(((aff > 0.01) & (aff < 0.99)).any())
    return None, None, coq_cols(rng, lp, w, m2, np.asarray(aff, float), 0.0, mm.tiny_of(lp), rtol, single=single), None, nt


# ----------------------------------------------------------------------------- D: initializers
def case_init(rng, tier, i):
    kind = str(rng.choice(['uniform', 'dirichlet', 'one_hot', 'flag', 'flag']))
    K = int(rng.integers(1, 7))
    N = int(rng.integers(1, 12))
    D = int(rng.integers(2, 5))
    lead = tuple(int(v) for v in rng.integers(1, 4, int(rng.integers(0, 3))))
    pf = bool(rng.random() < 0.5) or kind == 'flag'
    seed = int(rng.integers(0, 2 ** 31))
    minimum = 0.0
    if kind == 'flag' and rng.random() < 0.8:
        minimum = float(rng.uniform(0, 1) * (1.0 / K) * 0.999 + 1e-12)
    rp = {'fn': 'init', 'kind': kind, 'K': K, 'N': N, 'D': D, 'lead': list(lead), 'pf': pf, 'np_seed': seed, 'minimum': minimum}
    name = 'initializer %s K=%d N=%d lead=%s permutation_free=%s minimum=%.4g' % (kind, K, N, lead, pf, minimum)
    fail, key, coq = eval_init(rp)
    return Case(name, coq=coq, pred_fail=fail, key=key, nontrivial=K >= 2 and N >= 2, digest_=core.digest(name, seed),
                sample={'name': name}, replay=rp, kind='init/' + kind)


def eval_init(rp):
    from pb_bss.initializer import iid, deterministic
    K, N, D, lead, pf = rp['K'], rp['N'], rp['D'], tuple(rp['lead']), rp['pf']
    Y = np.zeros((*lead, N, D))
    np.random.seed(rp['np_seed'])
    kind = rp['kind']
    try:
        if kind == 'uniform':
            out = iid.uniform_normalized(Y, K, permutation_free=pf)
        elif kind == 'dirichlet':
            out = iid.dirichlet(Y, K, permutation_free=pf)
        elif kind == 'one_hot':
            out = iid.one_hot(Y, K, permutation_free=pf)
        else:
            out = deterministic.flag(Y, K, permutation_free=True, minimum=rp['minimum'])
    except Exception as e:
        return 'initializer raised %s: %s' % (type(e).__name__, str(e)[:200]), 'init:raises:%s' % kind, None
    out = np.asarray(out)
    fail = validity(out, K, N, lead, label='initial affiliation (%s)' % kind)
    if fail:
        return fail, 'init:invalid:%s' % kind, None
    coq = None
    if kind == 'flag':
        lab = np.linspace(0, K, N, dtype=int, endpoint=False)
        m = rp['minimum']
        li = tuple(0 for _ in lead)
        if m > 0:
            want = np.where(np.arange(K)[:, None] == lab[None, :], 1 - (K - 1) * m, m)
            if np.abs(out[li] - want).max() > 1e-12:
                return ('flag(minimum=%g): non-assigned classes must get exactly the minimum, the assigned class the rest; '
                        'max dev %.3g' % (m, np.abs(out[li] - want).max())), 'init:flag-exact', None
            cols = sorted(set([0, N - 1, N // 2]))
            coq = 'allR [%s]' % '; '.join('check_flag %s %d %s %d %s' % (RT64, K, core.fhex(m), int(lab[n]), core.flist(out[li][:, n]))
                                          for n in cols)
        else:
            if np.any(out[li] != (np.arange(K)[:, None] == lab[None, :])):
                return 'flag(minimum=0) is not the one-hot flag pattern', 'init:flag-onehot', None
    elif kind == 'uniform':
        np.random.seed(rp['np_seed'])
        u = np.random.uniform(size=(K, N) if pf else (*lead, K, N))
        li = tuple(0 for _ in lead)
        uu = u if pf else u[li]
        coq = 'allR [%s]' % '; '.join('check_iid %s %d %s %s' % (RT64, K, core.flist(uu[:, n]), core.flist(out[li][:, n]))
                                      for n in sorted(set([0, N - 1])))
    elif kind == 'one_hot':
        if not np.all((out == 0) | (out == 1)):
            return 'one_hot initializer is not 0/1', 'init:onehot', None
    return None, None, coq


def case_deflation(rng, K=None):
    from pb_bss.initializer.deflation import deflationSeed
    F, Tn, D, K = 257, 14, 3, (K or int(rng.integers(2, 4)))
    Y = mm.crandn(rng, (F, Tn, D))
    rp = {'fn': 'deflation', 'Y': Y, 'K': K}
    fail, key = eval_deflation(rp)
    return Case('deflationSeed F=257 T=%d D=%d K=%d' % (Tn, D, K), pred_fail=fail, key=key, nontrivial=True,
                digest_=core.digest(Y, K), sample={'name': 'deflationSeed', 'Y': core.small(Y, 3)}, replay=rp, kind='init/deflation')


def eval_deflation(rp):
    from pb_bss.initializer.deflation import deflationSeed
    Y, K = np.array(rp['Y']), rp['K']
    Y.setflags(write=False)
    try:
        out = deflationSeed(Y, K)
    except Exception as e:
        return 'deflationSeed raised %s: %s' % (type(e).__name__, str(e)[:200]), 'init:deflation:raises'
    out = np.asarray(out)           # (K, F, T)
    o = np.moveaxis(out, 0, -2)      # (F, K, T)
    fail = validity(o, K, Y.shape[1], (Y.shape[0],), label='deflationSeed')
    return (fail, 'init:deflation:invalid') if fail else (None, None)


# -----------------------------------------------------------------------------
def cases(rng, tier):
    q = tier == 'quick'
    out = []
    for i in range(40 if q else 400):
        out.append(case_direct(rng, tier, i))
    for i in range(40 if q else 350):
        out.append(case_model(rng, tier, i))
    # degenerate stream, stratified: every model meets every degeneracy in every run
    for i in range(49 if q else 490):
        out.append(case_model(rng, tier, i, degen=True, force_name=mm.MODELS[i % 7], force_mode=DEGEN_MODES[(i // 7) % 7]))
    for i in range(15 if q else 60):
        out.append(case_model(rng, tier, i, degen=True, force_name=['gcacgmm', 'vmfcacgmm', 'cacgmm'][i % 3],
                              force_mode=['big', 'big', 'small', 'big', 'mixedscale'][(i // 3) % 5], scale_few=True))
    # single precision (observations and initial affiliation) meets silent / repeated frames in every model
    for i in range(28 if q else 112):
        out.append(case_model(rng, tier, i, degen=True, force_name=mm.MODELS[i % 7],
                              force_mode=['zero', 'repeat', 'fewframes', 'rank1'][(i // 7) % 4], force_single=True))
    for i in range(20 if q else 150):
        out.append(case_init(rng, tier, i))
    for i in range(3 if q else 9):
        out.append(case_deflation(rng, K=[2, 3, 4][i % 3]))
    return out


def search(rng, tier, hints):
    for i in range(300 if tier == 'quick' else 2000):
        r = i % 4
        c = case_direct(rng, tier, i) if r == 0 else case_model(rng, tier, i, degen=(r == 2)) if r < 3 else case_init(rng, tier, i)
        if c.pred_fail:
            return [c]
    return []


def replay(payload):
    rp = payload['replay']
    fn = rp['fn']
    if fn == 'direct':
        return eval_direct(rp)[0]
    if fn == 'model':
        return eval_model(rp)[0]
    if fn == 'init':
        return eval_init(rp)[0]
    return eval_deflation(rp)[0]
