"""C05 -- mixture training is equivariant under relabelling of the classes.
Metamorphic predicate on the implementation, for all seven mixture trainers x options: fit with the initial affiliation
(and source_activity_mask) permuted along the class axis by sigma versus the permuted result of the original run:
posteriors (predict), stored weights, every per-class parameter (eigenvectors through U diag(l) U^H, Watson mode through its
projector), every in-loop affiliation / quadratic form; all K! permutations for K <= 4 in the thorough tier.
Correspondence inside Coq (Run/C05.v, PrimFloat): the posterior column of Model/Posterior.v on relabelled inputs against the
implementation's posterior of the relabelled run and against the relabelled model posterior; the weight update on the
relabelled start against the implementation's first M-step."""
import itertools
import numpy as np
from harness import core, mm
from harness.core import Case

PID = 'C05'
REQUIRES = ['Run.C05']
RULE = ('all 7 mixture trainers x tying/saliency/mask/eps/covariance/stream-weight options, K 2..4 (all K! permutations in thorough, up to 3 '
        'non-identity ones in quick), D 2..5, iterations 1..5 (quick) / 1..20 (thorough), starts positive / dirichlet / one-hot; inline aligners '
        'in a separate stream (clause proved only for tie-free score matrices); non-trivial: sigma != identity, the original fit is not '
        'itself symmetric under sigma (weights or posteriors differ between the swapped classes by > 1e-3); distinct by SHA-1 of '
        'inputs/options/sigma')
NOT_PROVED = ('"up to rounding" (the theorems are exact over the reals: relabelling only reorders the class-axis sums); the clause with an '
              'inline permutation aligner / inline alignment of the integration models is proved only under the hypothesis that the aligned '
              'E-step commutes with relabelling on tie-free states (C05_fit_perm_aligner_partial); those cases run the same predicate')
ASSUMPTIONS = ['tiny = np.finfo(float64).tiny', 'well-conditioned comparison: tolerance 1e-9, widened to 1e-13 / lambda_min for cACG eigenvalues '
               'below 1e-4 (floored spectra) and to 1e-6 for cBMM (least_squares stopping tolerance)']

TINY = float(np.finfo(np.float64).tiny)
RT = '0x1p-30'
EXPLICIT = (AssertionError, ValueError, NotImplementedError, np.linalg.LinAlgError, FloatingPointError)


def rel(a, b):
    a, b = np.asarray(a, dtype=complex if np.iscomplexobj(a) else float), np.asarray(b)
    if a.shape != b.shape:
        return np.inf
    if a.size == 0:
        return 0.0
    if not (np.all(np.isfinite(a)) and np.all(np.isfinite(b))):
        return np.inf
    return float(np.abs(a - b).max() / max(1.0, np.abs(a).max(), np.abs(b).max()))


def relm(a, b):
    a, b = np.asarray(a), np.asarray(b)
    if a.shape != b.shape or not (np.all(np.isfinite(a)) and np.all(np.isfinite(b))):
        return np.inf
    s = max(np.abs(a).max(), np.abs(b).max()) if a.size else 0.0
    return float(np.abs(a - b).max() / s) if s > 0 else 0.0


def class_observables(name, model, shape):
    """[(label, array, class_axis, scale-free?)]: every fitted quantity that carries a class axis"""
    o = [('weight', np.array(mm.stored_weight(name, model, shape)), -2, False)]
    if name in ('cacgmm', 'gcacgmm', 'vmfcacgmm'):
        o.append(('cacg.covariance', model.cacg.covariance, -3, True))
        o.append(('cacg.eigenvalues', np.sort(model.cacg.covariance_eigenvalues, axis=-1), -2, False))
    if name == 'cwmm':
        m = model.complex_watson.mode
        o.append(('watson.mode projector', m[..., :, None] * m[..., None, :].conj(), -3, True))
        o.append(('watson.concentration', model.complex_watson.concentration, -1, False))
    if name == 'cbmm':
        # the concentrations kappa solve grad log c(kappa) = scatter eigenvalues, kappa ~ -1/lambda: an absolute rounding
        # error of the scatter (1e-16 .. 1e-11 after a few iterations) is amplified by 1/lambda^2, so "equal up to rounding"
        # is judged on the one-to-one image 1/(1 - kappa) in (0, 1] (~ the scatter eigenvalue) with the same eigenvectors
        U, kap = model.complex_bingham.covariance_eigenvectors, model.complex_bingham.covariance_eigenvalues
        img = 1.0 / (1.0 - np.minimum(kap, 0.0))
        o.append(('bingham.covariance (eigenvalues mapped to 1/(1-kappa))',
                  np.einsum('...de,...e,...fe->...df', U, img, U.conj()), -3, False))
        o.append(('bingham.eigenvalues (mapped to 1/(1-kappa))', np.sort(img, axis=-1), -2, False))
    if name in ('vmfmm', 'vmfcacgmm'):
        o.append(('vmf.mean', model.vmf.mean, -2, False))
        o.append(('vmf.concentration', model.vmf.concentration, -1, False))
    if name in ('gmm', 'gcacgmm'):
        g = model.gaussian
        o.append(('gaussian.mean', g.mean, -2, False))
        cov = np.asarray(g.covariance)
        ax = {g.mean.ndim + 1: -3, g.mean.ndim: -2, g.mean.ndim - 1: -1}[cov.ndim]
        o.append(('gaussian.covariance', cov, ax, True))
    return o


def lam_min_of(name, trace):
    if name not in ('cacgmm', 'gcacgmm', 'vmfcacgmm'):
        return 1.0
    return min(float((np.min(r['model'].cacg.covariance_eigenvalues, axis=-1)
                      / np.max(r['model'].cacg.covariance_eigenvalues, axis=-1)).min()) for r in trace)


def diverging(name, trace):
    """a Bingham concentration beyond 1e6, or a full Gaussian class covariance with reciprocal condition number below 1e-10:
    the class has collapsed onto (numerically) rank-deficient scatter, and whether sklearn's Cholesky factorisation still
    succeeds (or refuses with its explicit 'ill-defined empirical covariance') is decided by rounding"""
    if name in ('gmm', 'gcacgmm'):
        worst = 1.0
        for r in trace:
            g = r['model'].gaussian
            cov = np.asarray(g.covariance)
            if cov.ndim == np.asarray(g.mean).ndim + 1:          # full covariance
                ev = np.linalg.eigvalsh(cov)
                worst = min(worst, float((ev[..., 0] / np.maximum(ev[..., -1], 1e-300)).min()))
        return worst < 1e-10
    if name != 'cbmm':
        return False
    return max(float(np.abs(r['model'].complex_bingham.covariance_eigenvalues).max()) for r in trace) > 1e6


def perms_for(rng, K, tier, count=3):
    allp = [p for p in itertools.permutations(range(K)) if p != tuple(range(K))]
    if tier == 'thorough' and K <= 4:
        return allp
    idx = rng.choice(len(allp), size=min(count, len(allp)), replace=False)
    return [allp[int(i)] for i in idx]


# ----------------------------------------------------------------------------- cases
_CCOUNT = [0]
_CMASK = [0]


def make_case(rng, tier, i, name, aligner=False, many=False, four=False):
    q = tier == 'quick'
    K = int(rng.integers(2, 5))
    if four:
        K = 4       # four classes: the inline alignment of the integration models searches 24 orders per bin
    D = int(rng.integers(2, 6))
    if name in mm.INTEGRATION:
        lead = (9,) if four else (int(rng.integers(1, 4)),)
    elif aligner:
        lead = (int(rng.choice([3, 5])),)       # the aligners insist on an odd number of frequencies
    else:
        lead = tuple(int(v) for v in rng.integers(1, 4, int(rng.integers(0, 3))))
    if name == 'cbmm':
        D, K = min(D, 3), min(K, 3)
    N = K * (D + 2) + int(rng.integers(0, 9 if name != 'cbmm' else 4))
    if many:
        # many frequency bins: the stack of class covariances handed to one M-step has more than 4096 matrices
        K, D = 3, 2
        N = 9
        lead = (int(rng.integers(1370, 1500)),)
    data = mm.make_data(rng, name, K, D, N, lead, separation=0.05 if four else float(rng.choice([0.5, 2.0, 8.0])))      # four: no class structure
    lab_ = data.get('labels')
    if four and 'embedding' in data:
        # the two streams disagree about the classes (frames of the embedding shuffled, per bin): the best class order of a bin is
        # then far from the identity and many orders score similarly
        e = data['embedding'].copy()
        for ix in np.ndindex(*e.shape[:-2]):
            e[ix] = e[ix][rng.permutation(e.shape[-2])]
        data['embedding'] = e
    data = {k: v for k, v in data.items() if k != 'labels'}
    if name == 'gmm' and not many and i % 14 == 3:
        # a very concentrated class next to a diffuse one (std 1e-3 .. 1e-2 vs 3 .. 8): log-densities of one observation under
        # different classes lie thousands of nats apart
        lead = ()
        cent = rng.normal(size=(K, D)) * 10.0
        sig = np.where(np.arange(K) == int(rng.integers(0, K)), 10.0 ** rng.uniform(-3, -2), rng.uniform(3.0, 8.0, size=K))
        lab2 = np.arange(N) % K
        data = {'y': cent[lab2] + rng.normal(size=(N, D)) * sig[lab2][:, None]}
        conc_init = 0.9 * np.eye(K)[lab2].T + 0.1 / K
    else:
        conc_init = None
    style = ['positive', 'dirichlet', 'onehot'][int(rng.integers(0, 3))] if name != 'cbmm' else ['positive', 'dirichlet'][int(rng.integers(0, 2))]
    init = mm.make_init(rng, K, N, lead, style)
    if conc_init is not None:
        init, style = conc_init, 'near-truth'
    _CCOUNT[0] += 1
    if _CCOUNT[0] % 4 == 0 and conc_init is None:
        # hard masks: boolean / integer typed, overlapping (not one-hot), every class with mass
        b = rng.random(init.shape) < 0.5
        b[..., 0, :] |= ~b.any(-2)
        for k in range(K):
            b[..., k, k % N] = True
        init = b if _CCOUNT[0] % 8 == 0 else b.astype(np.int64) * rng.integers(1, 4, size=b.shape)
        style = 'mask/' + str(init.dtype)
    opts = mm.sample_options(rng, name, K, N, lead, with_aligner=False)
    opts.pop('inline_permutation_alignment', None)
    if name == 'cacgmm':
        _CMASK[0] += 1
    if name == 'cacgmm' and not many and _CMASK[0] % 2 == 0:
        # every second cACGMM case carries a mask, every fourth one with an observation where every source is inactive (a pause)
        m = rng.random((*lead, K, N)) < 0.75
        m[..., 0, :] |= ~m.any(axis=-2)
        if _CMASK[0] % 4 == 0:
            m[..., :, int(rng.integers(0, N))] = False       # an observation with every source inactive
        opts['source_activity_mask'] = m
    if aligner:
        if name in mm.INTEGRATION:
            opts['inline_permutation_alignment'] = True
        else:
            opts['weight_constant_axis'] = [(-3,), (-3, -1), -3][int(rng.integers(0, 3))]
    iters = int(rng.integers(1, 6 if q else 21))
    if four:
        iters = int(rng.integers(2, 6))
    if many:
        opts = {'weight_constant_axis': (-1,)}
        iters = int(rng.integers(1, 3))
    if name == 'cbmm':
        iters = min(iters, 5 if q else 10)
    rp = {'fn': 'perm', 'model': name, 'data': data, 'init': init, 'opts': opts, 'aligner': bool(aligner and name not in mm.INTEGRATION),
          'iterations': iters, 'perms': [list(p) for p in perms_for(rng, K, tier, 9 if four else 3)], 'pick': int(rng.integers(0, 2 ** 31)),
          'reuse_trainer': bool(_CCOUNT[0] % 2),
          'container': (_CCOUNT[0] // 2) % 3}       # one container for every fit of the case (labellings and conditioning probe alike)
    label = 'relabel %s K=%d D=%d N=%d lead=%s iters=%d init=%s perms=%d%s opts=%s' % (
        name, K, D, N, lead, iters, style, len(rp['perms']), ' ALIGNER' if aligner else '', mm.describe_options(opts))
    fail, key, coq, raised, nt = eval_perm(rp)
    return Case(label, coq=coq, pred_fail=fail, key=key, nontrivial=bool(nt),
                digest_=core.digest(label, *data.values(), init, repr(rp['perms'])), sample={'name': label, 'perms': rp['perms'][:3]},
                replay=rp, raised=raised, kind=('aligner/' if aligner else 'model/') + name)


class TieTap:
    """inline aligner handed to fit: delegates to GreedyPermutationAlignment('cos') and records whether every score
    matrix it met was tie-free (all K*K scores of a frequency pair distinct by a relative margin)"""
    def __init__(self):
        from pb_bss.permutation_alignment import GreedyPermutationAlignment
        self.inner = GreedyPermutationAlignment(similarity_metric='cos')
        self.min_gap = np.inf

    def calculate_mapping(self, mask):
        s = np.asarray(self.inner.get_score_matrix(mask[:, 1:, :], mask[:, :-1, :]), dtype=float)
        flat = np.sort(s.reshape(s.shape[0], -1), axis=-1) if s.ndim == 3 else np.sort(s.reshape(1, -1), axis=-1)
        if flat.shape[-1] > 1:
            self.min_gap = min(self.min_gap, float(np.min(np.diff(flat, axis=-1))))
        return self.inner.calculate_mapping(mask)

    def apply_mapping(self, mask, mapping):
        return self.inner.apply_mapping(mask, mapping)


def run_fit(name, data, init, opts, iters, aligner, trainer=None, container=None):
    """returns (model, trace, smallest score gap met by the inline aligner or inf)"""
    o = dict(opts)
    tap = None
    if aligner:
        tap = TieTap()
        o['inline_permutation_aligner'] = tap
    m, tr = mm.fit(name, data, init, iterations=iters, trainer=trainer, container=container, **o)
    return m, tr, (tap.min_gap if tap is not None else np.inf)


def deviations(name, shape, A, B, sigma):
    """relative deviation of every observable of run B from the relabelled observable of run A"""
    (mA, trA, pA), (mB, trB, pB) = A, B
    d = {'posterior': ('posteriors', rel(pA[..., sigma, :], pB))}
    for (lab, a, ax, sf), (_, b, _, _) in zip(class_observables(name, mA, shape), class_observables(name, mB, shape)):
        ap = np.take(a, sigma, axis=ax)
        d['param:' + lab.split('.')[0] + ':' + lab] = ('fitted ' + lab, relm(ap, b) if sf else rel(ap, b))
    for it, (ra, rb) in enumerate(zip(trA, trB)):
        for fld in ('affiliation', 'quadratic_form'):
            if fld in ra and fld in rb:
                sc = max(1.0, float(np.abs(ra[fld]).max())) if fld == 'quadratic_form' else 1.0
                e = rel(ra[fld][..., sigma, :], rb[fld]) / sc
                key = 'trace:' + fld
                if key not in d or e > d[key][1]:
                    d[key] = ('%s entering M-step %d' % (fld, it + 1), e)
    return d


def eval_perm(rp):
    name = rp['model']
    data = {k: np.array(v) for k, v in rp['data'].items()}
    for v in data.values():
        v.setflags(write=False)
    opts = dict(rp['opts'])
    if isinstance(opts.get('weight_constant_axis'), list) and (name in mm.INTEGRATION or rp['aligner']):
        opts['weight_constant_axis'] = tuple(opts['weight_constant_axis'])
    init = np.array(rp['init'])
    init.setflags(write=False)
    K, N = init.shape[-2:]
    lead = init.shape[:-2]
    shape = init.shape
    iters = rp['iterations']
    mask = opts.get('source_activity_mask')
    al = ' (inline aligner)' if (rp['aligner'] or opts.get('inline_permutation_alignment')) else ''
    alk = ':aligner' if al else ''

    # one trainer object for the whole case (a trainer is routinely used for several fits) or a fresh one per fit
    shared = mm.trainer_cls(name)() if rp.get('reuse_trainer') else None

    def run(init_, mask_, data_=None, fresh=False):
        data_ = data if data_ is None else data_
        o = dict(opts)
        if mask_ is not None:
            o['source_activity_mask'] = mask_
        m, tr, gap = run_fit(name, data_, init_, o, iters, rp['aligner'], trainer=None if fresh else shared, container=rp.get('container'))
        p = mm.predict(name, m, data_, **({'source_activity_mask': mask_} if (name == 'cacgmm' and mask_ is not None) else {}))
        return (m, tr, p), gap
    try:
        A, gapA = run(init, mask)
    except EXPLICIT as e:
        return None, None, None, '%s: %s' % (type(e).__name__, str(e)[:120]), False      # refused without relabelling: outside C05
    except Exception as e:
        return ('fit/predict raised %s on a regular input: %s' % (type(e).__name__, str(e)[:300]),
                'perm:raises:%s:%s' % (name, type(e).__name__), None, None, False)
    if rp['aligner'] and not gapA > 1e-9:
        return None, None, None, 'inline aligner met a tied score matrix (gap %.3g): outside the clause' % gapA, False
    mA, trA, pA = A
    lam_min = lam_min_of(name, trA)
    tol = 1e-6 if name == 'cbmm' else max(1e-9, 1e-13 / lam_min) * (1 if iters == 1 else 10)
    well = tol <= 1e-7 or name == 'cbmm'
    nontrivial = False
    coq_parts = []
    r = np.random.default_rng(rp['pick'])
    cache = {}

    def probe_noise():
        """conditioning probe: the same fit (same labelling) with start and data perturbed at the 1e-13 level; returns the
        largest relative deviation of any observable, or None when the perturbed fit raises"""
        if 'v' not in cache:
            pr = np.random.default_rng(rp['pick'] + 1)
            # a boolean / integer typed start keeps its type (and so its values): only the data are perturbed then
            ip = init if init.dtype.kind in 'biu' else init + 1e-13 * pr.random(init.shape)
            if init.dtype.kind not in 'biu' and np.allclose(np.asarray(init, float).sum(-2), 1.0):
                ip = ip / ip.sum(-2, keepdims=True)
            dp = {}
            for kk, vv in data.items():
                if np.iscomplexobj(vv):
                    dp[kk] = vv * (1 + 1e-13 * (pr.uniform(-1, 1, vv.shape) + 1j * pr.uniform(-1, 1, vv.shape)))
                else:
                    dp[kk] = vv * (1 + 1e-13 * pr.uniform(-1, 1, vv.shape))
            try:
                d_ = deviations(name, shape, A, run(ip, mask, dp, fresh=True)[0], list(range(K)))
                cache['v'] = max(v[1] for v in d_.values())
            except Exception:
                cache['v'] = None
        return cache['v']
    for pi, sigma in enumerate(rp['perms']):
        sigma = list(sigma)
        initB = np.ascontiguousarray(init[..., sigma, :])
        maskB = None if mask is None else np.ascontiguousarray(mask[..., sigma, :])
        try:
            B, gapB = run(initB, maskB)
        except EXPLICIT as e:
            # an assertion on a rounding-level quantity (cBMM: sign of a scatter eigenvalue that is zero in exact arithmetic)
            # may fire for one labelling only; accepted when the trajectory is ill-conditioned, i.e. the same happens (or
            # the result moves) under a 1e-13 perturbation with the SAME labelling
            if diverging(name, trA) or probe_noise() is None or probe_noise() > 1e-3:
                return None, None, None, 'ill-conditioned trajectory: %s for sigma=%s only' % (type(e).__name__, sigma), False
            return ('%s: fit succeeds for the original labelling but raises %s for sigma=%s: %s' % (name, type(e).__name__, sigma, str(e)[:200]),
                    'perm:raises-relabelled:%s' % name, None, None, False)
        except Exception as e:
            return ('%s: fit succeeds for the original labelling but raises %s for sigma=%s: %s' % (name, type(e).__name__, sigma, str(e)[:200]),
                    'perm:raises-relabelled:%s' % name, None, None, False)
        dev = deviations(name, shape, A, B, sigma)
        worst = max(dev, key=lambda k_: dev[k_][1])
        if dev[worst][1] > tol:
            # A deviation that a 1e-13 perturbation (same labelling) reproduces is rounding amplified by an ill-conditioned
            # trajectory (collapsing class, diverging concentration, oracle stopping tolerance), not a dependence on the labelling.
            noise = probe_noise()
            if noise is None:
                return None, None, None, 'ill-conditioned trajectory (the fit raises under a 1e-13 perturbation of start and data)', False
            if dev[worst][1] <= 10 * noise:
                return None, None, None, ('ill-conditioned trajectory (a 1e-13 perturbation of start and data moves the result by %.3g): '
                                          'outside the comparison' % noise), False
            lab, e = dev[worst]
            return ('%s%s: %s of the relabelled fit (sigma=%s) differ(s) from the relabelled result of the original fit after %d '
                    'iteration(s) by %.3g (relative; a 1e-13 perturbation of start and data gives %.3g)' % (name, al, lab, sigma, iters, e, noise),
                    'perm:%s:%s%s' % (worst.split(':')[0] + (':' + worst.split(':')[1] if worst.startswith('param') else ''), name, alk),
                    None, None, False)
        mB, trB, pB = B
        # non-triviality: sigma moves classes that the original fit distinguishes
        if rel(pA[..., sigma, :], pA) > 1e-3:
            nontrivial = True
        if pi == 0 and not al:
            coq_parts += coq_perm(rp, name, data, init, opts, mask, sigma, trA, trB, mA, pB, lead, K, N, r)
    coq = 'allR [%s]' % '; '.join(coq_parts) if (coq_parts and well) else None
    return None, None, coq, None, nontrivial and well


def coq_perm(rp, name, data, init, opts, mask, sigma, trA, trB, mA, pB, lead, K, N, r):
    parts = []
    iters = rp['iterations']
    # (1) posterior one M-step deep: model after the first M-step of the ORIGINAL run, its component log-pdfs and weights,
    #     against the affiliation entering M-step 2 of the RELABELLED run (or predict when iterations == 1)
    try:
        lp, w = mm.components(name, trA[0]['model'], data)
    except Exception:
        lp = None
    if lp is not None and np.all(np.isfinite(lp)):
        bm = mask if name == 'cacgmm' else None
        if iters >= 2 and 'affiliation' in trB[1]:
            out, eps = trB[1]['affiliation'], float(opts.get('affiliation_eps', 0.0))
        else:
            out, eps = (pB, 0.0) if iters == 1 else (None, 0.0)
        if out is not None:
            cols = []
            idx = [li + (n,) for li in np.ndindex(*lead) for n in range(N)]
            for j in r.choice(len(idx), size=min(4, len(idx)), replace=False):
                li, n = idx[int(j)][:-1], idx[int(j)][-1]
                b = bm[li][:, n] if bm is not None else np.ones(K, bool)
                cols.append('(%s, %s, %s, %s)' % (core.flist(w[li][:, n]), core.flist(lp[li][:, n]), core.blist(b), core.flist(out[li][:, n])))
            parts.append('check_posterior_perm_cols %s %d %s %s %s [%s]' % (RT, K - 1, core.fhex(TINY), core.fhex(eps), core.nlist(sigma),
                                                                        '; '.join(cols)))
    # (2) weight update of the first M-step on the relabelled start (tying over the observations of one leading index)
    wca = opts.get('weight_constant_axis', (-1,))
    if name not in mm.INTEGRATION and wca in ((-1,), -1, [-1]):
        li = tuple(int(r.integers(0, s)) for s in lead)
        wB = np.asarray(trB[0]['model'].weight)
        if wB.shape == (*lead, K, 1):
            sal = opts.get('saliency')
            use_sal = (sal is not None) or name != 'cacgmm'
            s = np.ones(N) if sal is None else sal[li]
            parts.append('check_weight_perm %s %d %d %s %s %s %s %s %s' % (
                RT, K - 1, N, core.fmat(np.asarray(init[li], float)), core.flist(s), core.cbool(use_sal), core.fhex(1e-10), core.nlist(sigma),
                core.flist(wB[li][:, 0])))
    return parts


# -----------------------------------------------------------------------------
def cases(rng, tier):
    q = tier == 'quick'
    out = []
    for i in range(56 if q else 560):
        out.append(make_case(rng, tier, i, mm.MODELS[i % 7]))
    al = ['cacgmm', 'cwmm', 'cbmm', 'gcacgmm', 'vmfcacgmm']
    for i in range(10 if q else 100):
        out.append(make_case(rng, tier, i, al[i % 5], aligner=True))
    for i in range(6 if q else 24):
        out.append(make_case(rng, tier, i, ['gcacgmm', 'vmfcacgmm'][i % 2], aligner=True, four=True))
    for i in range(2 if q else 6):
        out.append(make_case(rng, tier, i, ['cacgmm', 'cwmm', 'cacgmm'][i % 3], many=True))
    return out


def search(rng, tier, hints):
    for i in range(150 if tier == 'quick' else 800):
        c = make_case(rng, tier, i, mm.MODELS[i % 7])
        if c.pred_fail:
            return [c]
    return []


def replay(payload):
    return eval_perm(payload['replay'])[0]
