"""C08 -- trainers return the documented weighted estimators and EM alternates them.
(S) single-distribution trainers against Model/Trainers.v on PrimFloat (oracle contracts evaluated on the model-side
matrix), (M) every recorded EM iteration of the seven mixture trainers: M-step of sampled classes against the model,
E-step against the posterior model, quadratic forms against cacg_quad, (R) integer saliency vs physical repetition.
Predicates: the documented formulas evaluated independently in NumPy."""
import numpy as np
from harness import core, mm
from harness.core import Case

PID = 'C08'
REQUIRES = ['Run.C08', 'Run.C01']
RULE = ('single trainers (Gaussian x3, complex Gaussian, vMF, Watson, cACG step and iterated fit, Bingham) with and without '
        'saliency; recorded EM traces of all 7 mixture trainers (1..4 iterations quick, ..8 thorough) x options, with and '
        'without inline aligner; integer saliency 1..4 vs repetition; non-trivial: N > D, saliency not constant (or s_n > 1 '
        'for the repetition law); distinct by SHA-1 of inputs/options')
NOT_PROVED = ('oracle calls (eigh, Watson spline inverse, Bingham least squares) are contracts evaluated per case; convergence '
              'of the repeated cACG step to Tyler\'s fixed point is explored (fixed-point residual after many iterations), not proved')
ASSUMPTIONS = ['eigh contract: A u = e u (residual <= 2^-22 |A|), U^H U = I (2^-26)',
               'Watson ratio_inv contract |ratio(kappa) - eig| <= 1e-6 inside the table; Bingham contract |grad log c - eig| <= 1e-5']
SHARD = 60

TINY = float(np.finfo(np.float64).tiny)


def herm(a):
    return np.conj(np.swapaxes(a, -1, -2))


def cov_of(U, lam):
    return np.einsum('...wx,...x,...zx->...wz', U, lam, np.conj(U))


# ----------------------------------------------------------------------------- single trainers
_SAL_COUNT = [0]
_TRC = [0]
_GOFF = [0]
_LARGE = [False]
_FORCE = [None]      # dedicated stratum: every trainer once with an integer and once with a boolean saliency


def sal_kind(rng, s):
    """the same non-negative weights as float64 (mostly), as an integer count array or as a boolean mask (a 0/1 weight):
    'all non-negative saliency weights with positive sum' does not fix the dtype"""
    _SAL_COUNT[0] += 1
    u = (0.0, 0.75, 0.0, 0.9)[_SAL_COUNT[0] % 4]      # stratified: float, int, float, bool
    if _FORCE[0]:
        u = {'int': 0.75, 'bool': 0.9}[_FORCE[0]]
    rng.random()
    if u < 0.7:
        return s
    if u < 0.85:
        c = np.floor(s * 2.5).astype(np.int64)
    else:
        c = s > np.median(s, axis=-1, keepdims=True)
        c[..., 0] = True
        c[..., 1] = True            # at least two observations carry weight in every slice
    if np.any(c.sum(-1) == 0):
        return s
    return c


def single_gauss(rng, tier):
    from pb_bss.distribution import GaussianTrainer
    D, N = int(rng.integers(1, 6)), int(rng.integers(6, 20))
    if _LARGE[0]:
        D, N = min(D, 3), int(rng.integers(33000, 45000))        # a long recording (block-wise accumulation, remainders)
    lead = tuple(int(v) for v in rng.integers(1, 3, int(rng.integers(0, 2))))
    y = rng.normal(size=(*lead, N, D)) * 10.0 ** rng.integers(-2, 3) + rng.normal(size=(*lead, 1, D)) * 3
    _GOFF[0] += 1
    if _GOFF[0] % 3 == 1:
        # a cloud far from the origin (mean >> spread): sum y y^T - N m m^T would cancel, the pooled scatter of the centred data does not
        y = rng.normal(size=(*lead, N, D)) * float(rng.uniform(0.1, 1.0)) + rng.uniform(1.0, 3.0, size=(*lead, 1, D)) * 1e5
    s = None if (rng.random() < 0.3 and not _FORCE[0]) else sal_kind(rng, rng.uniform(0.0, 2.0, size=(*lead, N)))
    ct = ['full', 'diagonal', 'spherical'][int(rng.integers(0, 3))]
    rp = {'fn': 'gauss', 'y': y, 's': s, 'ct': ct}
    return _mk(rp, 'GaussianTrainer.fit %s D=%d N=%d lead=%s saliency=%s' % (ct, D, N, lead, s is not None),
               N > D and (s is None or np.ptp(np.asarray(s, float)) > 0), rng)


def eval_gauss(rp, rng):
    from pb_bss.distribution import GaussianTrainer
    y, s, ct = np.array(rp['y']), rp['s'], rp['ct']
    y.setflags(write=False)
    m = GaussianTrainer().fit(y, saliency=s, covariance_type=ct)
    ss = np.ones(y.shape[:-1]) if s is None else np.asarray(s, dtype=float)
    den = np.maximum(ss.sum(-1), TINY)
    mean = np.einsum('...n,...nd->...d', ss, y) / den[..., None]
    d = y - mean[..., None, :]
    full = np.einsum('...n,...nd,...ne->...de', ss, d, d) / den[..., None, None]
    want = {'full': full, 'diagonal': np.einsum('...dd->...d', full), 'spherical': np.einsum('...dd->...', full) / y.shape[-1]}[ct]
    sc = max(np.abs(want).max(), 1e-300)
    if np.abs(m.mean - mean).max() > 1e-9 * max(np.abs(mean).max(), 1e-300) + 1e-12 or np.abs(m.covariance - want).max() > 1e-9 * sc:
        return 'GaussianTrainer(%s) is not the weighted mean / pooled weighted scatter' % ct, 'single:gauss:%s' % ct, None
    li = tuple(int(rng.integers(0, n)) for n in y.shape[:-2])
    D, N = y.shape[-1], y.shape[-2]
    if N > 400:
        return None, None, None
    coq = 'check_gauss_fit %d %d %s %s %s %d %s %s' % (
        D, N, core.fhex(TINY), core.fmat(y[li]), core.flist(ss[li]), ['full', 'diagonal', 'spherical'].index(ct),
        core.flist(m.mean[li]), core.flist(np.asarray(m.covariance[li]).reshape(-1)))
    return None, None, coq


def single_ccsg(rng, tier):
    D, N = int(rng.integers(1, 5)), int(rng.integers(5, 16))
    if _LARGE[0]:
        D, N = min(D, 3), int(rng.integers(33000, 45000))        # a long recording (block-wise accumulation, remainders)
    lead = tuple(int(v) for v in rng.integers(1, 3, int(rng.integers(0, 2))))
    y = mm.crandn(rng, (*lead, N, D)) * 10.0 ** rng.integers(-2, 3)
    s = None if (rng.random() < 0.3 and not _FORCE[0]) else sal_kind(rng, rng.uniform(0.0, 2.0, size=(*lead, N)))
    rp = {'fn': 'ccsg', 'y': y, 's': s}
    return _mk(rp, 'ComplexCircularSymmetricGaussianTrainer.fit D=%d N=%d lead=%s saliency=%s' % (D, N, lead, s is not None),
               N > D and (s is None or np.ptp(np.asarray(s, float)) > 0), rng)


def eval_ccsg(rp, rng):
    from pb_bss.distribution.complex_circular_symmetric_gaussian import ComplexCircularSymmetricGaussianTrainer as Tr
    y, s = np.array(rp['y']), rp['s']
    m = Tr().fit(y, saliency=s)
    ss = np.ones(y.shape[:-1]) if s is None else np.asarray(s, dtype=float)
    want = np.einsum('...n,...nd,...ne->...de', ss, y, y.conj()) / np.maximum(ss.sum(-1), TINY)[..., None, None]
    if np.abs(m.covariance - want).max() > 1e-9 * np.abs(want).max():
        return 'complex Gaussian trainer is not the weighted outer-product mean E[y y^H]', 'single:ccsg', None
    li = tuple(int(rng.integers(0, n)) for n in y.shape[:-2])
    D, N = y.shape[-1], y.shape[-2]
    if N > 400:
        return None, None, None
    coq = 'check_ccsg_fit %d %d %s %s %s %s' % (D, N, core.fhex(TINY), core.cmat(y[li]), core.flist(ss[li]),
                                                core.clist(m.covariance[li].reshape(-1)))
    return None, None, coq


def single_vmf(rng, tier):
    D, N = int(rng.integers(2, 6)), int(rng.integers(5, 16))
    if _LARGE[0]:
        D, N = min(D, 3), int(rng.integers(33000, 45000))        # a long recording (block-wise accumulation, remainders)
    lead = tuple(int(v) for v in rng.integers(1, 3, int(rng.integers(0, 2))))
    mu = rng.normal(size=(*lead, 1, D))
    y = mu * float(rng.choice([0.0, 1.0, 4.0])) + rng.normal(size=(*lead, N, D))
    y *= 10.0 ** rng.integers(-3, 4, size=(*lead, N, 1))
    s = None if (rng.random() < 0.3 and not _FORCE[0]) else sal_kind(rng, rng.uniform(0.0, 2.0, size=(*lead, N)))
    kmin, kmax = (1e-10, 500.0) if rng.random() < 0.5 else (float(rng.choice([1e-10, 0.5])), float(rng.choice([5.0, 50.0])))
    rp = {'fn': 'vmf', 'y': y, 's': s, 'kmin': kmin, 'kmax': kmax}
    return _mk(rp, 'VonMisesFisherTrainer.fit D=%d N=%d lead=%s saliency=%s clip=[%g,%g]' % (D, N, lead, s is not None, kmin, kmax),
               N > D and (s is None or np.ptp(np.asarray(s, float)) > 0), rng)


def eval_vmf(rp, rng):
    from pb_bss.distribution import VonMisesFisherTrainer
    y, s, kmin, kmax = np.array(rp['y']), rp['s'], rp['kmin'], rp['kmax']
    m = VonMisesFisherTrainer().fit(y, saliency=s, min_concentration=kmin, max_concentration=kmax)
    ss = np.ones(y.shape[:-1]) if s is None else np.asarray(s, dtype=float)
    yn = y / np.maximum(np.linalg.norm(y, axis=-1, keepdims=True), TINY)
    r = np.einsum('...n,...nd->...d', ss, yn)
    nr = np.linalg.norm(r, axis=-1)
    D = y.shape[-1]
    rb = np.minimum(nr / ss.sum(-1), 1.0)
    with np.errstate(all='ignore'):
        kap = np.clip((rb * D - rb ** 3) / (1 - rb ** 2), kmin, kmax)
    if np.abs(m.mean - r / np.maximum(nr, TINY)[..., None]).max() > 1e-9:
        return 'vMF mean is not the normalised weighted resultant', 'single:vmf:mean', None
    if np.abs(m.concentration - kap).max() > 1e-6 * np.abs(kap).max():
        return 'vMF concentration is not the clipped Banerjee estimate', 'single:vmf:kappa', None
    li = tuple(int(rng.integers(0, n)) for n in y.shape[:-2])
    N = y.shape[-2]
    if N > 400:
        return None, None, None
    coq = 'check_vmf_fit %d %d %s %s %s %s %s %s %s' % (
        D, N, core.fhex(TINY), core.fhex(kmin), core.fhex(kmax), core.fmat(y[li]), core.flist(ss[li]),
        core.flist(m.mean[li]), core.fhex(m.concentration[li]))
    return None, None, coq


def _watson_ratio(kappa, D):
    from scipy.special import hyp1f1
    return hyp1f1(2, D + 1, kappa) / (D * hyp1f1(1, D, kappa))


def single_watson(rng, tier):
    D, N = int(rng.integers(2, 6)), int(rng.integers(6, 18))
    if _LARGE[0]:
        D, N = min(D, 3), int(rng.integers(33000, 45000))        # a long recording (block-wise accumulation, remainders)
    lead = tuple(int(v) for v in rng.integers(1, 3, int(rng.integers(0, 2))))
    a = mm.crandn(rng, (*lead, 1, D))
    y = a * mm.crandn(rng, (*lead, N, 1)) * float(rng.choice([0.3, 1.0, 5.0])) + mm.crandn(rng, (*lead, N, D))
    y *= 10.0 ** rng.integers(-3, 4, size=(*lead, N, 1))
    s = None if (rng.random() < 0.3 and not _FORCE[0]) else sal_kind(rng, rng.uniform(0.0, 2.0, size=(*lead, N)))
    kmax = float(rng.choice([500.0, 500.0, 50.0]))
    _WC[0] += 1
    if _WC[0] % 2 == 0 and not _LARGE[0]:
        # every run, both caps: frames so concentrated (top scatter eigenvalue > 0.999) that the cap decides the concentration
        y = a * mm.crandn(rng, (*lead, N, 1)) * 60.0 + mm.crandn(rng, (*lead, N, D))
        kmax = [50.0, 500.0][(_WC[0] // 2) % 2]
    rp = {'fn': 'watson', 'y': y, 's': s, 'kmax': kmax}
    return _mk(rp, 'ComplexWatsonTrainer.fit D=%d N=%d lead=%s saliency=%s max_concentration=%g' % (D, N, lead, s is not None, kmax),
               N > D and (s is None or np.ptp(np.asarray(s, float)) > 0), rng)


def eval_watson(rp, rng):
    from pb_bss.distribution import ComplexWatsonTrainer
    y, s, kmax = np.array(rp['y']), rp['s'], rp['kmax']
    D, N = y.shape[-1], y.shape[-2]
    # history: another trainer of the same dimension with ANOTHER concentration cap was used in this process before
    try:
        ComplexWatsonTrainer(max_concentration=(50.0 if kmax != 50 else 500.0)).fit(core.other_values(y))
    except Exception:
        pass
    m = ComplexWatsonTrainer(max_concentration=kmax).fit(y, saliency=s)
    ss = np.ones(y.shape[:-1]) if s is None else np.asarray(s, dtype=float)
    yn = y / np.maximum(np.linalg.norm(y, axis=-1, keepdims=True), TINY)
    A = np.einsum('...n,...nd,...ne->...de', ss, yn, yn.conj()) / ss.sum(-1)[..., None, None]
    ev, evec = np.linalg.eigh(A)
    top = ev[..., -1]
    if np.abs(np.abs(np.einsum('...d,...d->...', evec[..., -1].conj(), m.mode)) - 1).max() > 1e-7:
        return 'Watson mode is not the principal eigenvector of the weighted scatter', 'single:watson:mode', None
    kap = np.asarray(m.concentration)
    if kap.min() < 0 or kap.max() > kmax * (1 + 1e-12):
        return 'Watson concentration outside [0, max_concentration]', 'single:watson:range', None
    inside = (kap > 1e-3 * 1.01) & (kap < kmax * 0.999)
    if inside.any() and np.abs(_watson_ratio(kap[inside], D) - top[inside]).max() > 1e-6:
        return ('Watson concentration: eigenvalue ratio of the fitted concentration differs from the top scatter eigenvalue by %.3g'
                % np.abs(_watson_ratio(kap[inside], D) - top[inside]).max()), 'single:watson:kappa', None
    li = tuple(int(rng.integers(0, n)) for n in y.shape[:-2])
    if N > 400:
        return None, None, None
    coq = 'check_watson_fit %d %d %s %s %s %s %s' % (D, N, core.fhex(TINY), core.cmat(y[li]), core.flist(ss[li]),
                                                    core.clist(m.mode[li]), core.fhex(top[li]))
    return None, None, coq


def single_cacg(rng, tier):
    D, N = int(rng.integers(2, 6)), int(rng.integers(6, 18))
    lead = tuple(int(v) for v in rng.integers(1, 3, int(rng.integers(0, 2))))
    y = mm.crandn(rng, (*lead, N, D)) * mm.crandn(rng, (*lead, 1, D))
    # the private _fit is only reached with saliency * affiliation (always floating point): no integer / boolean stratum
    s = None if rng.random() < 0.3 else rng.uniform(0.0, 2.0, size=(*lead, N))
    q = rng.uniform(0.2, 3.0, size=(*lead, N))
    if rng.random() < 0.15:
        q[..., 0] = 0.0
    o = {'hermitize': bool(rng.random() < 0.8), 'covariance_norm': ['eigenvalue', 'trace', False][int(rng.integers(0, 3))],
         'eigenvalue_floor': float(rng.choice([1e-10, 1e-4, 1e-2]))}
    rp = {'fn': 'cacg', 'y': y, 's': s, 'q': q, 'o': o}
    return _mk(rp, 'ComplexAngularCentralGaussianTrainer._fit D=%d N=%d lead=%s saliency=%s %s' % (D, N, lead, s is not None, o),
               N > D and (s is None or np.ptp(np.asarray(s, float)) > 0), rng)


def cacg_reference(yn, ss, q, o, saliency_none=False):
    """documented Tyler/Ito step, independent NumPy; yn (..., N, D) unit vectors"""
    D = yn.shape[-1]
    qf = np.maximum(q, 10 * TINY)
    den = np.maximum(ss.sum(-1), TINY)
    A = D * np.einsum('...n,...nd,...ne->...de', ss / qf, yn, yn.conj()) / den[..., None, None]
    if o['hermitize']:
        A = (A + herm(A)) / 2
    if o['covariance_norm'] == 'trace':
        A = A / np.maximum(np.einsum('...dd', A).real, TINY)[..., None, None]
    return A


def eval_cacg(rp, rng):
    from pb_bss.distribution.complex_angular_central_gaussian import ComplexAngularCentralGaussianTrainer, normalize_observation
    y, s, q, o = np.array(rp['y']), rp['s'], np.array(rp['q']), rp['o']
    D, N = y.shape[-1], y.shape[-2]
    yn = normalize_observation(y)          # (..., D, N)
    m = ComplexAngularCentralGaussianTrainer()._fit(y=yn, saliency=s, quadratic_form=q, **o)
    ss = np.ones(y.shape[:-1]) if s is None else np.asarray(s, dtype=float)
    ynn = np.swapaxes(yn, -1, -2)
    fail = cacg_step_predicate(ynn, ss, q, o, m.covariance_eigenvectors, m.covariance_eigenvalues)
    if fail:
        return fail, 'single:cacg:%s' % o['covariance_norm'], None
    li = tuple(int(rng.integers(0, n)) for n in y.shape[:-2])
    coq = coq_cacg_step(ynn[li], ss[li], q[li], o, m.covariance_eigenvectors[li], m.covariance_eigenvalues[li])
    return None, None, coq


def cacg_step_predicate(ynn, ss, q, o, U, lam):
    """the stored (U, lambda) are the eigen-decomposition of the documented update, post-processed as documented"""
    A = cacg_reference(ynn, ss, q, o)
    Ah = (A + herm(A)) / 2 if not o['hermitize'] else A
    ev = np.linalg.eigvalsh(Ah)
    floor = o['eigenvalue_floor']
    if o['covariance_norm'] == 'eigenvalue':
        want = np.maximum(ev / np.maximum(ev.max(-1, keepdims=True), TINY), floor)
    else:
        want = np.maximum(ev, np.maximum(ev.max(-1, keepdims=True) * floor, TINY))
    if not o['hermitize']:
        return None       # eigh of a non-Hermitian matrix reads one triangle: only the relational Coq check applies
    if np.abs(np.sort(lam, -1) - np.sort(want, -1)).max() > 1e-7 * max(np.abs(want).max(), 1e-300):
        return 'cACG eigenvalues are not the (normalised, floored) spectrum of D sum s z z^H / q / sum s'
    # eigenvectors through a well-defined observable: unfloored eigen-spaces reproduce A
    R = np.einsum('...de,...ef->...df', Ah, U) - U * np.einsum('...de,...ef,...df->...f', Ah, U, U.conj()).real[..., None, :]
    if np.abs(R).max() > 1e-7 * max(np.abs(Ah).max(), 1e-300):
        return 'cACG eigenvectors are not eigenvectors of the documented update matrix'
    return None


def coq_cacg_step(ynn, ss, q, o, U, lam):
    D, N = ynn.shape[-1], ynn.shape[-2]
    norm = {'eigenvalue': 0, 'trace': 1, False: 2}[o['covariance_norm']]
    return 'check_cacg_step %d %d %s %s %s %d %s %s %s %s %s' % (
        D - 1, N, core.fhex(TINY), core.fhex(o['eigenvalue_floor']), core.cbool(o['hermitize']), norm,
        core.cmat(ynn), core.flist(ss), core.flist(q), core.cmat(U), core.flist(lam))


def single_cacg_fit(rng, tier):
    D, N = int(rng.integers(2, 5)), int(rng.integers(40, 80))
    lead = () if rng.random() < 0.6 else (int(rng.integers(1, 3)),)
    B = mm.crandn(rng, (*lead, D, D))
    y = np.einsum('...de,...ne->...nd', B, mm.crandn(rng, (*lead, N, D)))
    it = int(rng.choice([1, 3, 60]))
    rp = {'fn': 'cacgfit', 'y': y, 'iterations': it}
    return _mk(rp, 'ComplexAngularCentralGaussianTrainer.fit D=%d N=%d lead=%s iterations=%d' % (D, N, lead, it), True, rng)


def eval_cacgfit(rp, rng):
    from pb_bss.distribution.complex_angular_central_gaussian import ComplexAngularCentralGaussianTrainer
    y, it = np.array(rp['y']), rp['iterations']
    D, N = y.shape[-1], y.shape[-2]
    try:
        m = ComplexAngularCentralGaussianTrainer().fit(y, iterations=it)
    except Exception as e:
        return 'ComplexAngularCentralGaussianTrainer.fit raised %s: %s' % (type(e).__name__, str(e)[:160]), 'single:cacgfit:raises', None
    yn = y / np.linalg.norm(y, axis=-1, keepdims=True)
    # reference: iterate the documented step
    q = np.ones(y.shape[:-1])
    o = {'hermitize': True, 'covariance_norm': 'eigenvalue', 'eigenvalue_floor': 1e-10}
    for _ in range(it):
        A = cacg_reference(yn, np.ones(y.shape[:-1]), q, o)
        ev, U = np.linalg.eigh(A)
        lam = np.maximum(ev / ev.max(-1, keepdims=True), 1e-10)
        Bm = cov_of(U, lam)
        q = np.einsum('...nd,...de,...ne->...n', yn.conj(), np.linalg.inv(Bm), yn).real
    got = m.covariance
    if np.abs(got - Bm).max() > 1e-6:
        return 'iterated cACG fit differs from %d repetitions of the documented step (max dev %.3g)' % (it, np.abs(got - Bm).max()), 'single:cacgfit:iter', None
    if it >= 60:
        # fixed point: B ~ (D/N) sum z z^H / (z^H B^-1 z), compared after eigenvalue normalisation
        A = cacg_reference(yn, np.ones(y.shape[:-1]), q, o)
        ev = np.linalg.eigvalsh(A)
        A = A / ev.max(-1)[..., None, None]
        if np.abs(A - got).max() > 1e-5:
            return 'repeated cACG step has not converged to Tyler\'s fixed point after %d iterations (residual %.3g)' % (it, np.abs(A - got).max()), 'single:cacgfit:fixedpoint', None
    return None, None, None


def single_bingham(rng, tier):
    D, N = int(rng.integers(2, 5)), int(rng.integers(8, 16))
    a = mm.crandn(rng, (1, D))
    y = a * mm.crandn(rng, (N, 1)) * float(rng.choice([0.5, 2.0])) + mm.crandn(rng, (N, D))
    s = None if (rng.random() < 0.4 and not _FORCE[0]) else sal_kind(rng, rng.uniform(0.1, 2.0, size=(N,)))
    rp = {'fn': 'bingham', 'y': y, 's': s}
    return _mk(rp, 'ComplexBinghamTrainer.fit D=%d N=%d saliency=%s' % (D, N, s is not None), True, rng)


def eval_bingham(rp, rng):
    from pb_bss.distribution.complex_bingham import ComplexBinghamTrainer
    from pb_bss.distribution.complex_bingham_utils import grad_log_norm_symbolic
    y, s = np.array(rp['y']), rp['s']
    D = y.shape[-1]
    m = ComplexBinghamTrainer().fit(y, saliency=s)
    ss = np.ones(y.shape[:-1]) if s is None else np.asarray(s, dtype=float)
    yn = y / np.maximum(np.linalg.norm(y, axis=-1, keepdims=True), TINY)
    A = np.einsum('n,nd,ne->de', ss, yn, yn.conj()) / ss.sum()
    A = (A + herm(A)) / 2
    ev, U = np.linalg.eigh(A)
    got_U, lam = m.covariance_eigenvectors, m.covariance_eigenvalues
    R = A @ got_U - got_U * np.einsum('de,ef,df->f', A, got_U, got_U.conj()).real[None, :]
    if np.abs(R).max() > 1e-8:
        return 'Bingham eigenvectors are not the scatter eigenvectors', 'single:bingham:vec', None
    g = np.array(grad_log_norm_symbolic[D](*lam))
    if np.abs(np.sort(g) - np.sort(ev)).max() > 1e-5:
        return 'Bingham eigenvalues do not solve grad log c(lambda) = scatter eigenvalues (residual %.3g)' % np.abs(np.sort(g) - np.sort(ev)).max(), 'single:bingham:val', None
    return None, None, None


# ----------------------------------------------------------------------------- mixture traces
def class_params(name, model, li, k):
    """per-class fitted parameters of leading index li, class k"""
    if name in ('cacgmm',) or name in mm.INTEGRATION:
        return model.cacg.covariance_eigenvectors[li + (k,)], model.cacg.covariance_eigenvalues[li + (k,)]
    raise KeyError(name)


def trace_case(rng, tier, with_aligner=False):
    name = mm.MODELS[int(rng.integers(0, len(mm.MODELS)))]
    if with_aligner:
        name = ['cacgmm', 'cwmm'][int(rng.integers(0, 2))]
    K = int(rng.integers(2, 4))
    D = int(rng.integers(2, 5))
    N = int(rng.integers(4 * K, 6 * K + 6))
    lead = (int(rng.integers(1, 4)),) if (name in mm.INTEGRATION or with_aligner or rng.random() < 0.6) else ()
    if with_aligner:
        lead = (int(rng.choice([3, 5])),)       # DHTV insists on an odd number of bins
    if name == 'cbmm':
        N, D = min(N, 12), min(D, 3)
    data = mm.make_data(rng, name, K, D, N, lead, shared_labels=with_aligner, separation=6.0 if with_aligner else 2.0)
    init = mm.make_init(rng, K, N, lead, ['positive', 'dirichlet'][int(rng.integers(0, 2))])
    if not with_aligner and rng.random() < 0.25:
        key = 'observation' if name in mm.INTEGRATION else 'y'
        yy = data[key].copy()
        yy[..., int(rng.integers(0, N)), :] = 0          # a silent frame
        data[key] = yy
    if with_aligner:
        # common activity pattern over frequency, class order permuted per bin: the aligner has real work to do
        init = mm.permuted_partition_init(rng, data['labels'], K, blur=float(rng.choice([0.1, 0.3])))
    opts = mm.sample_options(rng, name, K, N, lead, with_aligner=False)
    opts.pop('inline_permutation_alignment', None)
    _TRC[0] += 1
    if lead and name not in mm.INTEGRATION and _TRC[0] % 3 == 0:
        # one saliency for all leading indices (e.g. a per-frame weight shared by every frequency), handed over in
        # broadcastable form (1, ..., N); with weights tied over the leading axis it is the same as the repeated array
        opts['saliency'] = rng.uniform(0.2, 2.0, size=(1,) * len(lead) + (N,))
        if len(lead) == 1 and _TRC[0] % 6 == 0:
            opts['weight_constant_axis'] = [(-3,), (-3, -1)][(_TRC[0] // 6) % 2]
    if not with_aligner and name not in mm.INTEGRATION and _TRC[0] % 7 == 2:
        # every run: saliency = signal power of a very quiet recording (total mass far below 1e-10)
        opts['saliency'] = rng.uniform(0.2, 2.0, size=(*lead, N)) * 1e-13
    if not with_aligner and _TRC[0] % 5 == 1 and N >= K * (D + 2):
        # a hard start (labels / oracle mask): one-hot, integer or boolean typed, together with fractional saliency weights;
        # balanced classes with more than D + 1 members each
        lab0 = np.stack([rng.permutation(N) % K for _ in range(int(np.prod(lead, dtype=int)))]).reshape(*lead, N)
        hard = np.moveaxis(np.eye(K, dtype=np.int64)[lab0], -1, -2)
        init = hard.astype(bool) if _TRC[0] % 10 == 1 else hard
        if 'saliency' not in opts:
            opts['saliency'] = rng.uniform(0.2, 0.9, size=(*lead, N))
    aligner = None
    if with_aligner:
        opts['weight_constant_axis'] = [(-3,), (-3, -1), -3][int(rng.integers(0, 3))]
        opts.pop('source_activity_mask', None)
        aligner = str(rng.choice(['greedy', 'dhtv']))
    iters = int(rng.integers(2, 5 if tier == 'quick' else 9))
    rp = {'fn': 'trace', 'model': name, 'data': {k: v for k, v in data.items() if k != 'labels'}, 'init': init,
          'opts': opts, 'iterations': iters, 'aligner': aligner}
    label = 'EM trace %s K=%d D=%d N=%d lead=%s iters=%d aligner=%s init=%s opts=%s' % (name, K, D, N, lead, iters, aligner, init.dtype, mm.describe_options(opts))
    sal = opts.get('saliency')
    return _mk(rp, label, sal is None or np.ptp(sal) > 0, rng, kind='trace/' + name + ('/aligner' if aligner else ''))


def make_aligner(kind, F=3):
    from pb_bss.permutation_alignment import GreedyPermutationAlignment, DHTVPermutationAlignment
    if kind == 'greedy':
        return GreedyPermutationAlignment(similarity_metric='cos')
    return DHTVPermutationAlignment(stft_size=2 * (F - 1), segment_start=0, segment_width=2, segment_shift=1,
                                    main_iterations=3, sub_iterations=2, similarity_metric='cos')


def eval_trace(rp, rng):
    name = rp['model']
    data = {k: np.array(v) for k, v in rp['data'].items()}
    for v in data.values():
        v.setflags(write=False)
    init = np.array(rp['init'])
    opts = dict(rp['opts'])
    if isinstance(opts.get('weight_constant_axis'), list) and name in mm.INTEGRATION:
        opts['weight_constant_axis'] = tuple(opts['weight_constant_axis'])
    if rp.get('aligner'):
        opts['inline_permutation_aligner'] = make_aligner(rp['aligner'], np.array(rp['init']).shape[0])
    K, N = init.shape[-2:]
    lead = init.shape[:-2]
    try:
        model, trace = mm.fit(name, data, init, iterations=rp['iterations'], **opts)
    except Exception as e:
        zero_in = any(bool((np.abs(v).sum(-1) == 0).any()) for k_, v in data.items() if np.iscomplexobj(v))
        if core.deliberate_exception(e) and (zero_in or name in ('gmm', 'gcacgmm', 'cbmm')):
            # silent frame (finiteness assertion), collapsed Gaussian class (sklearn's ValueError) or rank-deficient
            # Bingham scatter (assertion): deliberate, explicit exceptions
            return None, None, None
        return 'fit raised %s: %s' % (type(e).__name__, str(e)[:200]), 'trace:raises:%s' % name, None
    if len(trace) != rp['iterations']:
        return 'fit(iterations=%d) performed %d M-steps' % (rp['iterations'], len(trace)), 'trace:count:%s' % name, None
    sal = opts.get('saliency')
    if sal is not None:
        sal = np.broadcast_to(np.asarray(sal), (*lead, N))          # references work on the repeated array
    salv = np.ones((*lead, N)) if sal is None else np.asarray(sal)
    eps = float(opts.get('affiliation_eps', 0.0))
    mask = opts.get('source_activity_mask')
    parts = []
    yn = mm.normalized(name, data)
    # --- start values
    if np.abs(np.asarray(trace[0]['affiliation'], float) - np.asarray(init, float)).max() != 0:
        return 'first M-step did not receive the initial affiliation', 'trace:start:%s' % name, None
    if 'quadratic_form' in trace[0] and np.any(trace[0]['quadratic_form'] != 1):
        return 'first cACG M-step did not start from an all-ones quadratic form', 'trace:start-q:%s' % name, None
    for it, rec in enumerate(trace):
        aff = rec['affiliation']
        mdl = rec['model']
        li = tuple(int(rng.integers(0, n)) for n in lead)
        k = int(rng.integers(0, K))
        s_k = aff[li + (k,)] * salv[li]
        # ---------------- M-step: weights (independent formula) -----------------
        f = weights_predicate(name, mdl, aff, sal, opts.get('weight_constant_axis', (-1,)), K)
        if f:
            return 'iteration %d: %s' % (it + 1, f), 'trace:weights:%s' % name, None
        if name in mm.INTEGRATION:
            for attr in ('spatial_weight', 'spectral_weight'):
                if float(getattr(mdl, attr)) != float(opts.get(attr, 1.0)):
                    return ('iteration %d: model.%s = %r but the trainer was configured with %r'
                            % (it + 1, attr, getattr(mdl, attr), opts.get(attr, 1.0))), 'trace:stream-exponent:%s' % name, None
        # ---------------- M-step: class parameters -----------------
        f, coq = mstep_check(name, mdl, yn, data, aff, salv, rec.get('quadratic_form'), opts, li, k, rng)
        if f:
            return 'iteration %d, class %d: %s' % (it + 1, k, f), 'trace:mstep:%s' % name, None
        if coq and (it == len(trace) - 1 or rng.random() < 0.5):
            parts.append(coq)
        # ---------------- E-step that produced this affiliation (from the previous model) -----------------
        if it >= 1:
            prev = trace[it - 1]['model']
            try:
                lp, w = mm.components(name, prev, data, opts)
            except Exception as e:
                return 'component log_pdf raised %s' % type(e).__name__, 'trace:logpdf:%s' % name, None
            m2 = mask if name == 'cacgmm' else None
            ref = mm.bayes(lp, w, m2)
            if eps:
                ref = np.clip(ref, eps, 1 - eps)
            if rp.get('aligner') or opts.get('inline_permutation_alignment'):
                if np.abs(np.sort(aff, -2) - np.sort(ref, -2)).max() > 1e-7:
                    return 'iteration %d: aligned E-step is not a per-bin reordering of the Bayes posterior' % (it + 1), 'trace:estep-aligned:%s' % name, None
            else:
                if np.abs(aff - ref).max() > 1e-7:
                    return ('iteration %d: E-step is not the (clipped) Bayes posterior of the previous model (max dev %.3g)'
                            % (it + 1, np.abs(aff - ref).max())), 'trace:estep:%s' % name, None
                if rng.random() < 0.5:
                    from harness.props.c01 import coq_cols
                    parts.append(coq_cols(rng, lp, w, m2, aff, eps, mm.tiny_of(lp), '0x1p-22', maxcols=3))
            if 'quadratic_form' in rec:
                Uc, lc = prev.cacg.covariance_eigenvectors, prev.cacg.covariance_eigenvalues
                qref = np.maximum(np.abs(np.einsum('...nd,...kde,...ke,...kge,...ng->...kn', yn.conj(), Uc, 1 / lc, Uc.conj(), yn)), TINY)
                q = rec['quadratic_form']
                if rp.get('aligner'):
                    # posteriors and quadratic forms must have been permuted together
                    same = np.abs(np.sort(q, -2) - np.sort(qref, -2)).max() <= 1e-6 * np.abs(qref).max()
                    order_a = np.argsort(np.argsort(-ref, -2), -2)
                    if not same:
                        return 'iteration %d: quadratic forms are not a reordering of z^H B^-1 z' % (it + 1), 'trace:q-aligned:%s' % name, None
                    perm_ok = True
                    for f_ in range(aff.shape[0]):
                        # the permutation that maps ref -> aff must map qref -> q
                        for kk in range(K):
                            src = int(np.argmin(np.abs(ref[f_] - aff[f_, kk][None, :]).sum(-1)))
                            if np.abs(qref[f_, src] - q[f_, kk]).max() > 1e-6 * np.abs(qref[f_]).max():
                                perm_ok = False
                    if not perm_ok:
                        return ('iteration %d: inline alignment permuted the posterior and the quadratic form differently' % (it + 1),
                                'trace:q-aligned:%s' % name, None)
                elif opts.get('inline_permutation_alignment'):
                    pass
                elif np.abs(q - qref).max() > 1e-6 * np.abs(qref).max():
                    return ('iteration %d: quadratic form handed to the M-step is not z^H B^-1 z of the preceding E-step model '
                            '(max dev %.3g)' % (it + 1, np.abs(q - qref).max())), 'trace:q:%s' % name, None
                elif rng.random() < 0.5:
                    kk = int(rng.integers(0, K))
                    ns = sorted(set(int(v) for v in rng.integers(0, N, 3)))
                    lpk = (-yn.shape[-1] * np.log(qref) - np.log(lc).sum(-1)[..., None])
                    parts.append('check_cacg_logpdf %d %s %s %s %s %s %s' % (
                        yn.shape[-1], core.fhex(TINY), core.cmat(Uc[li + (kk,)]), core.flist(lc[li + (kk,)]),
                        core.cmat(yn[li][ns]), core.flist(q[li + (kk,)][ns]), core.flist(lpk[li + (kk,)][ns])))
    if np.abs(_flat_params(name, model) - _flat_params(name, trace[-1]['model'])).max() != 0:
        return 'returned model is not the model of the last M-step', 'trace:return:%s' % name, None
    coq = 'allR [' + '; '.join(parts[:6]) + ']' if parts else None
    return None, None, coq


def _flat_params(name, model):
    w = np.asarray(model.weight, dtype=float).ravel()
    return w


def weights_predicate(name, mdl, aff, sal, wca, K):
    w = np.asarray(mdl.weight, dtype=float)
    if name in mm.INTEGRATION:
        wca_t = tuple(wca)
        if -2 in wca_t:
            want = np.array(1.0 / K)
        else:
            ma = aff * (np.ones(aff.shape[:-2] + aff.shape[-1:]) if sal is None else sal)[..., None, :]
            t = ma.sum(axis=wca_t, keepdims=True)
            t = t / t.sum(-2, keepdims=True)
            want = np.squeeze(t, axis=wca_t)
    else:
        ax = wca
        if isinstance(ax, list):
            ax = tuple(ax)
        if isinstance(ax, int) and ax % aff.ndim - aff.ndim == -2:
            want = np.full((K, 1), 1.0 / K)
        elif sal is None and name == 'cacgmm':
            # saliency None reaches estimate_mixture_weight only in CACGMMTrainer: plain mean over the tied axes
            want = aff.mean(axis=ax, keepdims=True)
        else:
            # every other trainer substitutes an all-ones saliency: sum over the tied axes renormalised over classes
            sv = np.ones(aff.shape[:-2] + aff.shape[-1:]) if sal is None else sal
            t = (aff * sv[..., None, :]).sum(axis=ax, keepdims=True)
            nrm = np.abs(t).sum(-2, keepdims=True)
            want = t / np.where(nrm == 0, 1e-10, nrm)
    if w.shape != np.shape(want):
        return 'mixture weight has shape %s, documented %s' % (w.shape, np.shape(want))
    if np.abs(w - want).max() > 1e-9:
        return 'mixture weights are not the (saliency-weighted) mean affiliation over the tied axes renormalised over classes (max dev %.3g)' % np.abs(w - want).max()
    return None


def mstep_check(name, mdl, yn, data, aff, salv, q, opts, li, k, rng):
    """class k, leading index li: documented estimator (NumPy) + Coq expression"""
    if name == 'cacgmm' or name in mm.INTEGRATION:
        o = {'hermitize': opts.get('hermitize', True), 'covariance_norm': opts.get('covariance_norm', 'eigenvalue'),
             'eigenvalue_floor': opts.get('eigenvalue_floor', 1e-10)}
        U, lam = mdl.cacg.covariance_eigenvectors, mdl.cacg.covariance_eigenvalues
        ss = aff * salv[..., None, :]
        f = cacg_step_predicate(yn[..., None, :, :], ss, q, o, U, lam)
        if f:
            return f, None
        coq = coq_cacg_step(yn[li], ss[li + (k,)], q[li + (k,)], o, U[li + (k,)], lam[li + (k,)])
        if name == 'gcacgmm' or name == 'vmfcacgmm':
            f2 = integration_spectral_predicate(name, mdl, data, aff, salv, opts)
            if f2:
                return f2, None
        return None, coq
    s_all = aff * salv[..., None, :]
    y = data['y']
    if name == 'gmm':
        ct = opts.get('covariance_type', 'full')
        g = mdl.gaussian
        den = np.maximum(s_all.sum(-1), TINY)
        mean = np.einsum('...kn,...nd->...kd', s_all, y) / den[..., None]
        d = y[..., None, :, :] - mean[..., None, :]
        full = np.einsum('...kn,...knd,...kne->...kde', s_all, d, d) / den[..., None, None]
        want = {'full': full, 'diagonal': np.einsum('...dd->...d', full), 'spherical': np.einsum('...dd->...', full) / y.shape[-1]}[ct]
        if np.abs(g.mean - mean).max() > 1e-8 * max(np.abs(mean).max(), 1e-300) or np.abs(g.covariance - want).max() > 1e-8 * np.abs(want).max():
            return 'GMM M-step is not the weighted mean / pooled scatter with weights affiliation*saliency', None
        coq = 'check_gauss_fit %d %d %s %s %s %d %s %s' % (
            y.shape[-1], y.shape[-2], core.fhex(TINY), core.fmat(y[li]), core.flist(s_all[li + (k,)]),
            ['full', 'diagonal', 'spherical'].index(ct), core.flist(g.mean[li + (k,)]),
            core.flist(np.asarray(g.covariance[li + (k,)]).reshape(-1)))
        return None, coq
    if name == 'vmfmm':
        kmin, kmax = opts.get('min_concentration', 1e-10), opts.get('max_concentration', 500)
        r = np.einsum('...kn,...nd->...kd', s_all, yn)
        nr = np.linalg.norm(r, axis=-1)
        D = y.shape[-1]
        rb = np.minimum(nr / s_all.sum(-1), 1.0)
        with np.errstate(all='ignore'):
            kap = np.clip((rb * D - rb ** 3) / (1 - rb ** 2), kmin, kmax)
        if np.abs(mdl.vmf.mean - r / np.maximum(nr, TINY)[..., None]).max() > 1e-8 or \
                np.abs(mdl.vmf.concentration - kap).max() > 1e-6 * np.abs(kap).max():
            return 'vMFMM M-step is not the normalised weighted resultant / clipped Banerjee concentration', None
        coq = 'check_vmf_fit %d %d %s %s %s %s %s %s %s' % (
            D, y.shape[-2], core.fhex(TINY), core.fhex(kmin), core.fhex(kmax), core.fmat(y[li]), core.flist(s_all[li + (k,)]),
            core.flist(mdl.vmf.mean[li + (k,)]), core.fhex(mdl.vmf.concentration[li + (k,)]))
        return None, coq
    if name == 'cwmm':
        A = np.einsum('...kn,...nd,...ne->...kde', s_all, yn, yn.conj()) / s_all.sum(-1)[..., None, None]
        ev, evec = np.linalg.eigh(A)
        mode = mdl.complex_watson.mode
        if np.abs(np.abs(np.einsum('...d,...d->...', evec[..., -1].conj(), mode)) - 1).max() > 1e-6:
            return 'cWMM mode is not the principal eigenvector of the weighted scatter', None
        kap = np.asarray(mdl.complex_watson.concentration)
        inside = (kap > 1e-3 * 1.01) & (kap < 500 * 0.999)
        top = ev[..., -1]
        if inside.any() and np.abs(_watson_ratio(kap[inside], y.shape[-1]) - top[inside]).max() > 1e-6:
            return 'cWMM concentration does not invert the hypergeometric ratio at the top eigenvalue', None
        coq = 'check_watson_fit %d %d %s %s %s %s %s' % (
            y.shape[-1], y.shape[-2], core.fhex(TINY), core.cmat(y[li]), core.flist(s_all[li + (k,)]),
            core.clist(mode[li + (k,)]), core.fhex(top[li + (k,)]))
        return None, coq
    if name == 'cbmm':
        A = np.einsum('...kn,...nd,...ne->...kde', s_all, yn, yn.conj()) / s_all.sum(-1)[..., None, None]
        A = (A + herm(A)) / 2
        U = mdl.complex_bingham.covariance_eigenvectors
        R = np.einsum('...de,...ef->...df', A, U) - U * np.einsum('...de,...ef,...df->...f', A, U, U.conj()).real[..., None, :]
        if np.abs(R).max() > 1e-7:
            return 'cBMM eigenvectors are not eigenvectors of the weighted scatter', None
        return None, None
    return None, None


def integration_spectral_predicate(name, mdl, data, aff, salv, opts):
    emb = data['embedding']
    F, Tn, E = emb.shape
    K = aff.shape[-2]
    ma = (aff * salv[..., None, :]).transpose(1, 0, 2).reshape(K, F * Tn)
    e = emb.reshape(1, F * Tn, E)
    if name == 'gcacgmm':
        from pb_bss.distribution import GaussianTrainer
        ct = opts.get('covariance_type', 'spherical')
        den = np.maximum(ma.sum(-1), TINY)
        mean = np.einsum('kn,nd->kd', ma, e[0]) / den[:, None]
        if np.abs(mdl.gaussian.mean - mean).max() > 1e-8 * max(np.abs(mean).max(), 1e-300):
            return 'GCACGMM spectral M-step mean is not the affiliation*saliency weighted mean over all time-frequency points'
    else:
        en = e / np.maximum(np.linalg.norm(e, axis=-1, keepdims=True), TINY)
        r = np.einsum('kn,nd->kd', ma, en[0])
        nr = np.linalg.norm(r, axis=-1)
        if np.abs(mdl.vmf.mean - r / np.maximum(nr, TINY)[:, None]).max() > 1e-8:
            return 'vMF-cACGMM spectral M-step mean is not the normalised weighted resultant over all time-frequency points'
    return None


# ----------------------------------------------------------------------------- repetition law
def repeat_case(rng, tier):
    name = str(rng.choice(['gauss', 'vmf', 'ccsg', 'watson', 'cacgmm', 'gmm', 'vmfmm', 'cwmm', 'cacgmm', 'gcacgmm']))
    N, D, K = int(rng.integers(6, 12)), int(rng.integers(2, 4)), int(rng.integers(2, 4))
    s = np.floor(rng.uniform(1, 5, size=N))
    if rng.random() < 0.5:
        s = s.astype(np.int64)        # counts are naturally integers
    seed = int(rng.integers(0, 2 ** 31))
    _RPC[0] += 1
    if _RPC[0] % 3:
        N = K * (D + 2) + int(rng.integers(0, 4))          # hard start: every class keeps more than D + 1 distinct observations
        s = np.floor(rng.uniform(1, 5, size=N)).astype(s.dtype)
    rp = {'fn': 'repeat', 'what': name, 'N': N, 'D': D, 'K': K, 's': s, 'seed': seed, 'iters': int(rng.integers(1, 4)),
          'hard': [None, 'bool', 'int64'][_RPC[0] % 3]}
    return _mk(rp, 'integer saliency vs repetition: %s N=%d D=%d K=%d iters=%d start=%s' % (name, N, D, K, rp['iters'], rp['hard']), bool((s > 1).any()), rng,
               kind='repeat/' + name)


def eval_repeat(rp, rng):
    what, N, D, K, s = rp['what'], rp['N'], rp['D'], rp['K'], np.array(rp['s'])
    r = np.random.default_rng(rp['seed'])
    rep = np.repeat(np.arange(N), s.astype(int))
    import pb_bss.distribution as d

    def close(a, b, tol=1e-8):
        a, b = np.asarray(a), np.asarray(b)
        return a.shape == b.shape and np.abs(a - b).max() <= tol * max(np.abs(b).max(), 1e-300)
    if what in ('gauss', 'vmf'):
        y = r.normal(size=(N, D)) + 2
        if what == 'gauss':
            ct = ['full', 'diagonal', 'spherical'][int(r.integers(0, 3))]
            a = d.GaussianTrainer().fit(y, saliency=s, covariance_type=ct)
            b = d.GaussianTrainer().fit(y[rep], covariance_type=ct)
            ok = close(a.mean, b.mean) and close(a.covariance, b.covariance)
        else:
            a = d.VonMisesFisherTrainer().fit(y, saliency=s)
            b = d.VonMisesFisherTrainer().fit(y[rep])
            ok = close(a.mean, b.mean) and close(a.concentration, b.concentration, 1e-6)
    elif what in ('ccsg', 'watson'):
        y = mm.crandn(r, (N, D))
        if what == 'ccsg':
            from pb_bss.distribution.complex_circular_symmetric_gaussian import ComplexCircularSymmetricGaussianTrainer as Tr
            ok = close(Tr().fit(y, saliency=s).covariance, Tr().fit(y[rep]).covariance)
        else:
            a = d.ComplexWatsonTrainer().fit(y, saliency=s)
            b = d.ComplexWatsonTrainer().fit(y[rep])
            ok = close(np.abs(np.vdot(a.mode, b.mode)), 1.0) and close(a.concentration, b.concentration, 1e-6)
    else:
        lead = (2,) if what in mm.INTEGRATION else ()
        data = mm.make_data(r, what, K, D, N, lead)
        init = mm.make_init(r, K, N, lead)
        if rp.get('hard'):
            lab0 = np.stack([r.permutation(N) % K for _ in range(int(np.prod(lead, dtype=int)))]).reshape(*lead, N)
            init = np.moveaxis(np.eye(K, dtype=np.int64)[lab0], -1, -2).astype(rp['hard'])
        sal = np.broadcast_to(s, (*lead, N)).copy()
        data2 = {k_: (v[..., rep, :] if k_ != 'labels' else v) for k_, v in data.items()}
        init2 = init[..., rep]
        ma, _ = mm.fit(what, data, init, iterations=rp['iters'], saliency=sal)
        mb, _ = mm.fit(what, data2, init2, iterations=rp['iters'])
        pa = mm.predict(what, ma, data)
        pb = mm.predict(what, mb, data)       # posterior of the original observations under both models
        ok = close(pa, pb, 1e-6) and close(np.asarray(ma.weight, float), np.asarray(mb.weight, float), 1e-7)
    if not ok:
        return 'integer saliency does not act like repeating the observations (%s)' % what, 'repeat:%s' % what, None
    return None, None, None



# ----------------------------------------------------------------------------- whole GMM fit executed by the model
_GL = [0]
_WC = [0]
_RPC = [0]


def gmmloop_case(rng, tier):
    K, D = int(rng.integers(2, 4)), int(rng.integers(1, 4))
    N = int(rng.integers(3 * K, 3 * K + 6))
    n = int(rng.integers(1, 6))
    mu = rng.normal(size=(K, D)) * 4.0
    lab = rng.integers(0, K, size=N)
    lab[:K] = np.arange(K)
    y = mu[lab] + rng.normal(size=(N, D))
    init = mm.make_init(rng, K, N, (), ['positive', 'dirichlet'][int(rng.integers(0, 2))])
    _GL[0] += 1
    ct = ['diagonal', 'spherical'][_GL[0] % 2]
    rp = {'fn': 'gmmloop', 'y': y, 'init': init, 'iterations': n, 'covariance_type': ct}
    return _mk(rp, 'whole GMM fit (%s) executed by the model K=%d D=%d N=%d iterations=%d' % (ct, K, D, N, n), True, rng,
               kind='gmmloop/' + ct)


def eval_gmmloop(rp, rng):
    from pb_bss.distribution import GMMTrainer
    y, init, n = np.array(rp['y']), np.array(rp['init']), rp['iterations']
    K, N = init.shape
    D = y.shape[-1]
    ct = rp.get('covariance_type', 'diagonal')
    model = GMMTrainer().fit(y, initialization=init, iterations=n, covariance_type=ct)
    post = model.predict(y)
    # independent NumPy run of the documented alternation
    g = init
    for it in range(n):
        if it:
            lp = -0.5 * D * np.log(2 * np.pi) - 0.5 * np.log(var).sum(-1)[:, None] \
                 - 0.5 * (((y[None] - mean[:, None]) ** 2) / var[:, None]).sum(-1)
            g = mm.bayes(lp, w)
        w = g.sum(-1, keepdims=True) / g.sum()
        den = np.maximum(g.sum(-1), TINY)
        mean = (g @ y) / den[:, None]
        var = np.einsum('kn,knd->kd', g, (y[None] - mean[:, None]) ** 2) / den[:, None]
        if ct == 'spherical':
            var = np.repeat(var.mean(-1, keepdims=True), D, axis=-1)       # pooled over the coordinates
    icov = np.asarray(model.gaussian.covariance)
    if ct == 'spherical':
        if icov.shape != (K,):
            return 'spherical GMM covariance has shape %s, documented (K,)' % (icov.shape,), 'gmmloop:shape', None
        icov = np.repeat(icov[:, None], D, axis=-1)
    if np.abs(model.weight - w).max() > 1e-7 or np.abs(model.gaussian.mean - mean).max() > 1e-7 * max(1, np.abs(mean).max()) \
            or np.abs(icov - var).max() > 1e-7 * np.abs(var).max():
        return 'GMMTrainer.fit(iterations=%d) is not %d alternations of the documented M- and E-steps' % (n, n), 'gmmloop:alternation', None
    coq = '%s %d %d %d %d %s %s %s %s %s %s %s %s' % (
        'check_gmm_fit_sph' if ct == 'spherical' else 'check_gmm_fit',
        K - 1, D, N, n, core.fhex(TINY), core.fhex(1e-10), core.fmat(y), core.fmat(init),
        core.flist(np.asarray(model.weight).reshape(-1)), core.fmat(model.gaussian.mean), core.fmat(icov),
        core.fmat(post))
    return None, None, coq


# ----------------------------------------------------------------------------- plumbing
EVAL = {'gauss': eval_gauss, 'ccsg': eval_ccsg, 'vmf': eval_vmf, 'watson': eval_watson, 'cacg': eval_cacg,
        'cacgfit': eval_cacgfit, 'bingham': eval_bingham, 'trace': eval_trace, 'repeat': eval_repeat,
        'gmmloop': eval_gmmloop}


def _perturb(rp, rng):
    """silent frames and saliency scales: inside the property's quantifier (all data sets, all non-negative saliencies
    with positive sum), rarely exercised by ordinary use"""
    # (not for Bingham: with a zero frame the scatter has trace < 1 and grad log c = scatter is unsolvable)
    if rp['fn'] in ('ccsg', 'vmf', 'watson', 'cacg', 'gauss') and rng.random() < 0.3:
        y = np.array(rp['y'])
        y[..., int(rng.integers(0, y.shape[-2])), :] = 0
        if rp['fn'] != 'gauss' and rng.random() < 0.5:
            y[..., 0, :] = 0
        rp['y'] = y
    if rp.get('s') is not None and rng.random() < 0.35:
        rp['s'] = np.array(rp['s']) * float(rng.choice([1e-13, 1e-6, 1e4]))


def _mk(rp, name, nontrivial, rng, kind=None):
    import traceback
    if rp['fn'] in ('gauss', 'ccsg', 'vmf', 'watson', 'cacg', 'bingham'):
        _perturb(rp, rng)
        name += ' zero_frames=%d saliency_sum=%.3g' % (int((np.abs(np.array(rp['y'])).sum(-1) == 0).sum()),
                                                       float(np.sum(rp['s'])) if rp.get('s') is not None else -1)
    try:
        fail, key, coq = EVAL[rp['fn']](rp, rng)
    except Exception as e:
        zero_in = any(isinstance(v, np.ndarray) and v.ndim >= 2 and np.iscomplexobj(v) and bool((np.abs(v).sum(-1) == 0).any())
                      for v in list(rp.values()) + (list(rp['data'].values()) if isinstance(rp.get('data'), dict) else []))
        zero_q = isinstance(rp.get('q'), np.ndarray) and bool((np.array(rp['q']) == 0).any())
        few = False
        if rp['fn'] == 'gauss' and rp.get('s') is not None:
            # fewer than D + 1 observations with weight in some slice: outside the quantifier (N > D observations); sklearn's
            # covariance routine refuses the singular class covariance with an explicit ValueError
            sv = np.asarray(rp['s'], dtype=float)
            few = bool(((sv > 0).sum(-1) <= np.array(rp['y']).shape[-1] + 1).any())
        if core.deliberate_exception(e) and (zero_in or zero_q or few):
            # silent frames / zero quadratic forms: the trainers assert finiteness on purpose (s/q overflows)
            fail, key, coq = None, None, None
        else:
            fail, key, coq = ('%s raised %s: %s' % (rp['fn'], type(e).__name__, str(e)[:300]),
                              '%s:crash:%s' % (rp['fn'], type(e).__name__), None)
    arrs = [v for v in rp.values() if isinstance(v, np.ndarray)]
    return Case(name, coq=coq, pred_fail=fail, key=key, nontrivial=bool(nontrivial), digest_=core.digest(name, *arrs),
                sample={'name': name}, replay=rp, kind=kind or ('single/' + rp['fn']))


def cases(rng, tier):
    q = tier == 'quick'
    out = []
    singles = [single_gauss, single_ccsg, single_vmf, single_watson, single_cacg, single_cacg, single_cacg_fit, single_bingham]
    for i in range(32 if q else 320):
        out.append(singles[i % len(singles)](rng, tier))
    for kind in ('bool', 'int'):
        for fn in (single_gauss, single_ccsg, single_vmf, single_watson, single_bingham):
            for rep in range(1 if q else 4):
                _FORCE[0] = kind
                try:
                    out.append(fn(rng, tier))
                finally:
                    _FORCE[0] = None
    for fn in (single_gauss, single_ccsg, single_vmf, single_watson):
        for rep in range(1 if q else 3):
            _LARGE[0] = True
            try:
                out.append(fn(rng, tier))
            finally:
                _LARGE[0] = False
    for i in range(28 if q else 250):
        out.append(trace_case(rng, tier))
    for i in range(6 if q else 60):
        out.append(trace_case(rng, tier, with_aligner=True))
    for i in range(12 if q else 100):
        out.append(repeat_case(rng, tier))
    for i in range(8 if q else 60):
        out.append(gmmloop_case(rng, tier))
    return out


def search(rng, tier, hints):
    singles = [single_gauss, single_ccsg, single_vmf, single_watson, single_cacg, single_cacg_fit, single_bingham]
    for i in range(200 if tier == 'quick' else 1500):
        r = i % 3
        c = singles[i % len(singles)](rng, tier) if r == 0 else trace_case(rng, tier, with_aligner=(i % 7 == 0)) if r == 1 else repeat_case(rng, tier)
        if c.pred_fail:
            return [c]
    return []


def replay(payload):
    rp = payload['replay']
    return EVAL[rp['fn']](rp, np.random.default_rng(0))[0]
