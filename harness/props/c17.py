"""C17 -- the documented pipeline separates a separable multi-channel scene.
Predicate (the property itself, end to end on the implementation): synthetic STFT-domain scene with K sources disjoint
in time-frequency, random per-frequency steering vectors, sensor noise 40 dB below the sources -> per-frequency spatial
mixture model started from a per-frequency permuted, blurred partition -> DHTV alignment -> oracle global alignment ->
mask-based PSDs -> beamforming.  Required: MAP class = true source in >= 99 % of the time-frequency points; output SIR
>= 30 dB for every source and every interference-cancelling beamformer.  Correspondence: the leakage bound of theorem
C17_mvdr_leakage_bound is evaluated on the scene's own PSDs (zero-forcing competitor), and bookkeeping identities of
the chain (transposes, mapping application) are compared with the discrete model."""
import numpy as np
from harness import core, mm
from harness.core import Case

PID = 'C17'
REQUIRES = ['Run.C17']
RULE = ('scenes K 2..3, D K+1..8, F in {33, 65} (thorough: also 257), T 60..200, random steering vectors, random activity '
        'partitions with every source active in >= 15 % of the frames, per-frequency permutation fields with a 70 % majority in '
        'the first DHTV segment and arbitrary elsewhere, cACGMM and cWMM, all listed beamformer names; non-trivial: permutation '
        'field not constant over frequency and every source active >= 15 %; distinct by SHA-1 of the scene')
NOT_PROVED = ('the 99 % / 30 dB thresholds are statistical statements about random scenes: explored (the property predicate on '
              'every generated scene), not proved; proved: MVDR leakage bound (conditional) and the class bookkeeping of the chain')
ASSUMPTIONS = ['noise exactly 40 dB below the source power at every sensor', 'EM iterations 20, blur 0.2',
               'oracle global alignment uses the true activity masks as reference']
SHARD = 20

# the beamformers the property lists: Souden MVDR, GEV with or without BAN, rank-one variants, WMWF
# ('+ban' on other cores is not claimed: blind analytic normalisation re-weights the bins and can lower the
#  broadband SIR of e.g. mvdr_souden+ban although every bin is separated)
BF_NAMES = ['mvdr_souden', 'gev', 'gev+ban', 'rank1_pca+mvdr_souden', 'rank1_gev+mvdr_souden',
            'rank1_pca+gev', 'rank1_gev+gev', 'wmwf', 'rank1_pca+wmwf', 'rank1_gev+wmwf']


_SC = [0]


def make_scene(rng, tier):
    _SC[0] += 1
    K = int(rng.integers(2, 4))
    D = int(rng.integers(K + 1, 9))
    Fs = [33, 65] if tier == 'quick' else [33, 65, 257]
    F = int(Fs[int(rng.integers(0, len(Fs)))])
    T = int(rng.integers(60, 201)) if tier != 'quick' else int(rng.integers(60, 121))
    shipped = _SC[0] % 10 == 9
    if shipped:
        F, T = 257, 60                   # the shipped configuration DHTVPermutationAlignment.from_stft_size(512)
    # activity partition over frames, every source active in >= 15 % of the frames
    while True:
        lab = rng.integers(0, K, size=T)
        # bursts make the activity pattern more speech like
        for _ in range(int(T / 8)):
            s = int(rng.integers(0, T - 4))
            lab[s:s + int(rng.integers(2, 6))] = int(rng.integers(0, K))
        if min(np.bincount(lab, minlength=K)) >= 0.15 * T:
            break
    A = mm.crandn(rng, (F, K, D))
    A = A / np.linalg.norm(A, axis=-1, keepdims=True)
    s = mm.crandn(rng, (F, T)) * 10.0 ** rng.uniform(-0.5, 0.5, size=(F, T))
    images = np.zeros((K, F, T, D), complex)
    for k in range(K):
        sel = lab == k
        images[k][:, sel, :] = s[:, sel, None] * A[:, k, None, :]
    clean = images.sum(0)
    sig_pow = np.mean(np.abs(clean) ** 2)
    noise_db = [40, 55, 70, 80][(_SC[0] // 3) % 4]                               # "at least 40 dB below the sources"
    noise = mm.crandn(rng, (F, T, D)) * np.sqrt(sig_pow / 2 * 10.0 ** (-noise_db / 10))
    y = clean + noise
    # DHTV plan: 512 default for F = 257, custom plans with shift <= width / 3 otherwise
    if F == 257 and shipped:
        plan = 'from_stft_size(512)'
    elif F == 257:
        plan = dict(stft_size=512, segment_start=70, segment_width=100, segment_shift=20)
    else:
        width = int(rng.choice([12, 15, 18]))
        plan = dict(stft_size=2 * (F - 1), segment_start=int(rng.integers(0, F - width)), segment_width=width,
                    segment_shift=int(rng.integers(1, width // 3 + 1)))
    # per-frequency permutation field: 70 % majority (identity) in the first segment, arbitrary elsewhere
    perm = np.stack([rng.permutation(K) for _ in range(F)])
    pl = dict(segment_start=70, segment_width=100) if isinstance(plan, str) else plan
    seg = np.arange(pl['segment_start'], pl['segment_start'] + pl['segment_width'])
    keep = rng.permutation(len(seg))[:int(np.ceil(0.7 * len(seg))) + 1]
    if isinstance(plan, str):
        # block structured field (still inside the domain): the same swap on every bin outside the kept part of the first segment
        sw = rng.permutation(K)
        while (sw == np.arange(K)).all():
            sw = rng.permutation(K)          # a genuine (non-identity) reordering
        perm[:] = sw
    perm[seg[keep]] = np.arange(K)
    blur = 0.2
    onehot = np.eye(K)[lab].T                                   # (K, T)
    init = np.empty((F, K, T))
    for f in range(F):
        nz = rng.random((K, T))
        g = (1 - blur) * onehot + blur * nz / nz.sum(0, keepdims=True)
        init[f] = g[perm[f]]
    # the class order of the start is arbitrary as a whole too: the oracle alignment has a non-trivial permutation to undo
    init = init[:, rng.permutation(K)]
    metric = str(rng.choice(['cos', 'cos', 'euclidean', 'multiply']))       # every similarity metric the aligner documents
    # recording level: the scene is defined up to its level (quiet / loud recordings, integer PCM scale)
    level = [1.0, 1e-4, 1.0, 3e4][(_SC[0] // 2) % 4]
    y, images, noise = y * level, images * level, noise * level
    # global alignment as in examples/mixture_model_example.ipynb (masked observation against the source images, complex)
    # or on the masks themselves
    oracle = ['masks', 'signals'][_SC[0] % 2]
    # one aligner object serves several recordings (here: a recording with another STFT size came first)
    reuse_aligner = _SC[0] % 3 == 0
    return {'y': y, 'images': images, 'noise': noise, 'lab': lab, 'init': init, 'plan': plan, 'perm': perm,
            'K': K, 'D': D, 'F': F, 'T': T, 'metric': metric, 'level': level, 'oracle': oracle, 'reuse_aligner': reuse_aligner}


def run_chain(sc, model_name, iterations=20):
    from pb_bss.permutation_alignment import DHTVPermutationAlignment, OraclePermutationAlignment
    from pb_bss.extraction import get_power_spectral_density_matrix, get_bf_vector, apply_beamforming_vector
    y, init, K, F, T = sc['y'], sc['init'], sc['K'], sc['F'], sc['T']
    data = {'y': y}
    model, _ = mm.fit(model_name, data, init, iterations=iterations)
    post = mm.predict(model_name, model, data)                   # (F, K, T)
    mask = np.transpose(post, (1, 0, 2))                         # (K, F, T)
    if sc.get('reuse_aligner'):
        F0 = 17
        dhtv = DHTVPermutationAlignment(main_iterations=20, sub_iterations=2, similarity_metric=sc.get('metric', 'cos'),
                                        stft_size=2 * (F0 - 1), segment_start=2, segment_width=9, segment_shift=3)
        r0 = np.random.default_rng(F * T)
        m0 = r0.random((K, F0, 12))
        dhtv.calculate_mapping(m0 / m0.sum(0, keepdims=True))
        for k_, v_ in (sc['plan'] if not isinstance(sc['plan'], str) else
                       dict(stft_size=512, segment_start=70, segment_width=100, segment_shift=20)).items():
            setattr(dhtv, k_, v_)
    else:
        if isinstance(sc['plan'], str):
            dhtv = DHTVPermutationAlignment.from_stft_size(512)
        else:
            dhtv = DHTVPermutationAlignment(main_iterations=20, sub_iterations=2, similarity_metric=sc.get('metric', 'cos'), **sc['plan'])
    mapping = dhtv.calculate_mapping(mask)
    aligned = dhtv.apply_mapping(mask, mapping)
    oracle = OraclePermutationAlignment()
    if sc.get('oracle') == 'signals':
        est = (aligned * y[None, :, :, 0]).reshape(K, F * T)
        refsig = np.asarray(sc['images'])[:, :, :, 0].reshape(K, F * T)
        # the estimate handed to the oracle is never exact in practice (soft masks, residual noise): 5 % estimation error
        r_ = np.random.default_rng(F * T + K)
        est = est + 0.05 * np.sqrt(np.mean(np.abs(est) ** 2)) * mm.crandn(r_, est.shape)
        gperm = oracle.calculate_mapping(est, refsig)
        final = aligned[np.asarray(gperm).reshape(-1)]
    else:
        ref = np.broadcast_to(np.eye(K)[sc['lab']].T[:, None, :], (K, F, T))
        gmap = oracle.calculate_mapping(aligned.reshape(K, 1, F * T), ref.reshape(K, 1, F * T))
        final = oracle.apply_mapping(aligned.reshape(K, 1, F * T), gmap).reshape(K, F, T)
    return model, post, mapping, aligned, final


def evaluate(rp, rng):
    from pb_bss.extraction import get_power_spectral_density_matrix, get_bf_vector, apply_beamforming_vector
    sc = {k: (np.array(v) if isinstance(v, (list, np.ndarray)) and k not in ('plan',) else v) for k, v in rp['scene'].items()}
    name = rp['model']
    K, F, T, D = sc['K'], sc['F'], sc['T'], sc['D']
    try:
        model, post, mapping, aligned, final = run_chain(sc, name)
    except Exception as e:
        return 'pipeline raised %s: %s' % (type(e).__name__, str(e)[:200]), 'pipeline:raises:%s:%s' % (name, type(e).__name__), None
    # bookkeeping: mappings are permutations, aligned mask is the mapped mask
    if not all(sorted(mapping[:, f]) == list(range(K)) for f in range(F)):
        return 'DHTV mapping is not a permutation per bin', 'pipeline:mapping', None
    truth = np.broadcast_to(sc['lab'][None, :], (F, T))
    mapc = final.argmax(0)
    acc = float((mapc == truth).mean())
    if acc < 0.99:
        # where does it go wrong? frequency-consistent order after DHTV?
        order = np.array([[int(np.argmax([np.sum(aligned[k, f] * (sc['lab'] == j)) for j in range(K)])) for k in range(K)] for f in range(F)])
        consistent = bool((order == order[0]).all())
        return ('aligned posteriors: MAP class equals the true source in only %.2f %% of the time-frequency points (< 99 %%); '
                'class order frequency-consistent after DHTV: %s' % (100 * acc, consistent)), 'pipeline:map:%s' % name, None
    if sc.get('oracle') == 'signals':
        # the global alignment step on its own: every relabelling of the (noisy, complex) estimate is undone
        from pb_bss.permutation_alignment import OraclePermutationAlignment
        y_ = np.asarray(sc['y'])
        est = (aligned * y_[None, :, :, 0]).reshape(K, F * T)
        refsig = np.asarray(sc['images'])[:, :, :, 0].reshape(K, F * T)
        r_ = np.random.default_rng(F * T + K + 1)
        est = est + 0.05 * np.sqrt(np.mean(np.abs(est) ** 2)) * mm.crandn(r_, est.shape)
        truth_k = [int(np.argmax([np.sum(aligned[k] * (sc['lab'] == j)[None, :]) for j in range(K)])) for k in range(K)]
        perm0 = np.argsort(truth_k)                      # est[perm0[j]] belongs to source j (known from the labels)
        for trial in range(4):
            pp = r_.permutation(K)
            g = np.asarray(OraclePermutationAlignment().calculate_mapping(est[pp], refsig)).reshape(-1)
            want = np.argsort(pp)[perm0]
            if not np.array_equal(g, want):
                return ('oracle global alignment on the masked observation (complex signals, 5 %% estimation error): estimate '
                        'relabelled by %s gives mapping %s, the source order requires %s' % (pp.tolist(), g.tolist(), want.tolist())), \
                    'pipeline:global-oracle:%s' % name, None
    # beamforming: mask-based PSDs, every listed beamformer, SIR per source
    Y = np.transpose(sc['y'], (0, 2, 1))                          # (F, D, T)
    images = np.transpose(sc['images'], (0, 1, 3, 2))             # (K, F, D, T)
    worst = {}
    parts = []
    for k in range(K):
        tmask = final[k]
        nmask = 1 - tmask
        Pt = get_power_spectral_density_matrix(Y, tmask)
        Pn = get_power_spectral_density_matrix(Y, nmask)
        for bf in rp['bf_names']:
            kw = {}
            if rp.get('bf_eig', {}).get(bf):
                # documented option: the general eigen-solver (unordered eigenvalues) instead of eigh
                kw = {'atf_kwargs': {'use_eig': True}} if bf.startswith('rank1_gev+') and not bf.endswith('gev') else {'use_eig': True}
                if bf.startswith('rank1_gev+gev'):
                    kw = {'use_eig': True, 'atf_kwargs': {'use_eig': True}}
            try:
                w = get_bf_vector(bf, Pt, Pn, **kw)
            except Exception as e:
                return 'get_bf_vector(%s) raised %s: %s' % (bf, type(e).__name__, str(e)[:160]), 'pipeline:bf-raises:%s' % bf, None
            if not np.all(np.isfinite(w)):
                return 'beamforming vector of %s not finite' % bf, 'pipeline:bf-nonfinite:%s' % bf, None
            out = np.stack([apply_beamforming_vector(w, images[j]) for j in range(K)])      # (K, F, T)
            p = np.sum(np.abs(out) ** 2, axis=(1, 2))
            interf = p.sum() - p[k]
            sir = 10 * np.log10(p[k] / max(interf, 1e-300))
            worst[bf] = min(worst.get(bf, np.inf), sir)
            if sir < 30:
                return ('output SIR of %s for source %d is %.1f dB (< 30 dB)' % (bf, k, sir)), 'pipeline:sir:%s:%s' % (name, bf), None
    # leakage bound of theorem C17_mvdr_leakage_bound evaluated on one bin of the scene (exact rank-one + noise PSDs)
    coq = leakage_coq(sc, rng)
    return None, None, coq


def leakage_coq(sc, rng):
    """sigma_j |w^H a_j|^2 <= nu ||v||^2 for the MVDR vector w of the ideal noise PSD and the zero-forcing competitor v"""
    K, F, D = sc['K'], sc['F'], sc['D']
    f = int(rng.integers(0, F))
    k = int(rng.integers(0, K))
    A = None
    images = sc['images']
    # steering vectors of bin f from the images
    a = []
    sig = []
    for j in range(K):
        sel = sc['lab'] == j
        X = images[j, f][sel]                                     # (Tj, D)
        v = X[np.argmax(np.linalg.norm(X, axis=-1))]
        v = v / np.linalg.norm(v)
        a.append(v)
        sig.append(float(np.mean(np.abs(X @ v.conj()) ** 2) * sel.mean()))
    a = np.array(a)
    nu = float(np.mean(np.abs(sc['noise'][f]) ** 2))
    Pn = sum(sig[j] * np.outer(a[j], a[j].conj()) for j in range(K) if j != k) + nu * np.eye(D)
    x = np.linalg.solve(Pn, a[k])
    # zero-forcing distortionless competitor: v^H a_k = 1, v^H a_j = 0
    G = a.conj()                                                 # rows a_j^H
    e = np.zeros(K); e[k] = 1
    v = np.linalg.lstsq(G, e.astype(complex), rcond=None)[0]      # minimum-norm solution of a_j^H v = delta_jk
    j = int([jj for jj in range(K) if jj != k][int(rng.integers(0, K - 1))])
    others = [jj for jj in range(K) if jj != k]
    return 'check_leakage %d %s %s %s %s %s %s %s %s [%s]%%float' % (
        D, core.cmat(Pn), core.clist(a[k]), core.clist(x), core.clist(v), core.clist(a[j]), core.fhex(sig[j]), core.fhex(nu),
        core.cmat(a[others]), '; '.join(core.fhex(sig[jj]) for jj in others))


def make(rng, tier, model=None):
    sc = make_scene(rng, tier)
    name = model or ['cacgmm', 'cwmm'][int(rng.integers(0, 2))]
    names = list(BF_NAMES) if tier == 'thorough' else [BF_NAMES[int(i)] for i in rng.permutation(len(BF_NAMES))[:5]]
    bf_eig = {bf: bool(rng.random() < 0.4) for bf in names if 'gev' in bf}
    rp = {'model': name, 'scene': sc, 'bf_names': names, 'bf_eig': bf_eig}
    label = 'scene %s K=%d D=%d F=%d T=%d level=%g oracle=%s reuse_aligner=%s metric=%s plan=%s use_eig=%s' % (name, sc['K'], sc['D'], sc['F'], sc['T'], sc['level'], sc['oracle'], sc['reuse_aligner'], sc['metric'], sc['plan'],
                                                                        sorted(b for b, v in bf_eig.items() if v))
    fail, key, coq = evaluate(rp, rng)
    nt = bool((sc['perm'] != sc['perm'][0]).any())
    return Case(label, coq=coq, pred_fail=fail, key=key, nontrivial=nt, digest_=core.digest(label, sc['y']),
                sample={'name': label, 'beamformers': names}, replay=rp, kind='scene/' + name)


def cases(rng, tier):
    n = 20 if tier == 'quick' else 120
    return [make(rng, tier, ['cacgmm', 'cwmm'][i % 2]) for i in range(n)]


def search(rng, tier, hints):
    for i in range(20 if tier == 'quick' else 100):
        c = make(rng, tier)
        if c.pred_fail:
            return [c]
    return []


def replay(payload):
    return evaluate(payload['replay'], np.random.default_rng(0))[0]
