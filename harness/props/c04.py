"""C04 -- spatial models depend only on the direction of each observation vector.
Metamorphic predicates on the implementation (y versus c[..., n] * y, |c| in 1e-100..1e100, arbitrary phase; positive real
gains for the vMF streams): log-pdf of the component distributions, single-distribution trainers, and for the six
directional mixture models fit (1..5 iterations, all trainer options) -> weights, parameters (through well-defined
observables: U diag(l) U^H, mode projector, concentrations), predict, log_likelihood, class differences of the component
log-pdfs.  Correspondence inside Coq (Run/C04.v, PrimFloat): normalisation of y and c.y, cACG quadratic form / log-pdf, the
matrix handed to eigh in the first M-step (recorded by tapping np.linalg.eigh from outside), Watson / Bingham / vMF log-pdf,
each against the implementation's value on y and on c.y."""
import numpy as np
from harness import core, mm
from harness.core import Case

PID = 'C04'
REQUIRES = ['Run.C04']
RULE = ('component distributions (cACG, complex Watson, complex Bingham, vMF: log_pdf and single-distribution trainers) and the six '
        'directional mixture models x tying/saliency/mask/eps/covariance options, 1..5 EM iterations, K 2..4, D 2..5; gain fields with '
        '|c| = 10^U(-100,100) per observation and arbitrary phase (positive real for vMF streams; phase-only for the raw Watson/Bingham '
        'log_pdf); non-trivial: gains of one case span >= 20 orders of magnitude (or phases span > pi/2), K >= 2, some posterior strictly '
        'inside (0.01, 0.99); distinct by SHA-1 of inputs/options')
NOT_PROVED = ('"up to rounding": the theorems are exact equalities over the reals; binary64 deviation is measured (1e-9 relative; 1e-6 for '
              'cBMM after fitting, whose least_squares oracle stops at its own 1e-8 tolerance) and not bounded by proof; oracle outputs '
              '(eigh, spline, least_squares, log-normalisers) are equal because their inputs are equal -- continuity of the oracles in '
              'binary64 is explored only')
ASSUMPTIONS = ['tiny = np.finfo(float64).tiny', 'no zero frames; |c| * |y| stays inside the binary64 range (quantifier of C04)',
               'ComplexWatson.log_pdf / ComplexBingham.log_pdf document unit-norm input: magnitude gains go through fit / predict only']

TINY = float(np.finfo(np.float64).tiny)
EXPLICIT = (AssertionError, ValueError, NotImplementedError, np.linalg.LinAlgError, FloatingPointError)
DIRECTIONAL = ['cacgmm', 'cwmm', 'cbmm', 'vmfmm', 'gcacgmm', 'vmfcacgmm']


# ----------------------------------------------------------------------------- helpers
def gains(rng, shape, real=False, phase_only=False):
    mag = np.ones(shape) if phase_only else 10.0 ** rng.uniform(-100, 100, size=shape)
    if real:
        return mag
    return mag * np.exp(2j * np.pi * rng.random(shape))


def span(c):
    a = np.abs(c)
    return float(np.log10(a.max() / a.min()))


def rel(a, b):
    a, b = np.asarray(a), np.asarray(b)
    if a.shape != b.shape:
        return np.inf
    if a.size == 0:
        return 0.0
    if not (np.all(np.isfinite(a)) and np.all(np.isfinite(b))):
        return 0.0 if np.array_equal(a, b, equal_nan=False) else np.inf
    return float(np.abs(a - b).max() / max(1.0, np.abs(a).max(), np.abs(b).max()))


def relm(a, b):
    """relative to the largest entry (matrices whose scale is arbitrary, e.g. covariance_norm=False)"""
    a, b = np.asarray(a), np.asarray(b)
    if a.shape != b.shape or not (np.all(np.isfinite(a)) and np.all(np.isfinite(b))):
        return np.inf
    s = max(np.abs(a).max(), np.abs(b).max())
    return float(np.abs(a - b).max() / s) if s > 0 else 0.0


class EighTap:
    """record every matrix handed to np.linalg.eigh (from outside the library)"""
    def __enter__(self):
        self.calls = []
        self.orig = np.linalg.eigh

        def tap(a, *args, **kw):
            if not mm.IN_WARMUP[0]:
                self.calls.append(np.array(a))
            return self.orig(a, *args, **kw)
        np.linalg.eigh = tap
        return self

    def __exit__(self, *exc):
        np.linalg.eigh = self.orig
        return False


def observables(name, model):
    """well-defined fitted quantities: name -> array"""
    o = {'weight': np.asarray(model.weight, dtype=float)}
    if name in ('cacgmm', 'gcacgmm', 'vmfcacgmm'):
        o['cacg.covariance'] = model.cacg.covariance
        o['cacg.eigenvalues'] = np.sort(model.cacg.covariance_eigenvalues, axis=-1)
    if name == 'cwmm':
        m = model.complex_watson.mode
        o['watson.mode projector'] = m[..., :, None] * m[..., None, :].conj()
        o['watson.concentration'] = model.complex_watson.concentration
    if name == 'cbmm':
        o['bingham.covariance'] = model.complex_bingham.covariance
        o['bingham.eigenvalues'] = np.sort(model.complex_bingham.covariance_eigenvalues, axis=-1)
    if name in ('vmfmm', 'vmfcacgmm'):
        o['vmf.mean'] = model.vmf.mean
        o['vmf.concentration'] = model.vmf.concentration
    if name == 'gcacgmm':
        o['gaussian.mean'] = model.gaussian.mean
        o['gaussian.covariance'] = model.gaussian.covariance
    return o


def scale_data(name, data, cs, ce):
    d2 = dict(data)
    if name in mm.INTEGRATION:
        if cs is not None:
            d2['observation'] = data['observation'] * cs
        if ce is not None:
            d2['embedding'] = data['embedding'] * ce
    elif name == 'vmfmm':
        d2['y'] = data['y'] * ce
    else:
        d2['y'] = data['y'] * cs
    return d2


def covnorm_code(v):
    return {'eigenvalue': 0, 'trace': 1, False: 2}[v]


def crow(a):
    return core.clist(np.asarray(a).ravel())


def cp(z):
    return core.cpair(z) + '%float'


# ----------------------------------------------------------------------------- A: component distributions
def case_dist(rng, tier, i):
    kind = ['cacg', 'rawphase', 'vmf', 'cacg_fit', 'watson_fit', 'bingham_fit', 'vmf_fit'][i % 7]
    K = int(rng.integers(1, 4))
    D = int(rng.integers(2, 6))
    N = int(rng.integers(2 * D + 2, 16))
    if kind == 'bingham_fit':
        D = min(D, 3)
    seed = int(rng.integers(0, 2 ** 31))
    rp = {'fn': 'dist', 'kind': kind, 'K': K, 'D': D, 'N': N, 'seed': seed}
    r = np.random.default_rng(seed)
    if kind in ('vmf', 'vmf_fit'):
        rp['y'] = r.normal(size=(N, D)) + 2.0 * r.normal(size=(1, D))
        rp['c'] = gains(r, (N, 1), real=True)
    else:
        a = mm.crandn(r, (1, D))
        rp['y'] = a * mm.crandn(r, (N, 1)) + mm.crandn(r, (N, D)) * float(r.choice([0.2, 1.0]))
        rp['c'] = gains(r, (N, 1), phase_only=(kind == 'rawphase'))
    rp['saliency'] = r.uniform(0.2, 2.0, size=(N,)) if (kind.endswith('_fit') and kind != 'cacg_fit' and r.random() < 0.5) else None
    rp['opts'] = {}
    if kind in ('cacg', 'cacg_fit'):
        rp['opts'] = {'covariance_norm': ['eigenvalue', 'trace', False][int(r.integers(0, 3))],
                      'eigenvalue_floor': float(r.choice([1e-10, 1e-6, 1e-3])), 'hermitize': bool(r.random() < 0.8),
                      'iterations': int(r.integers(1, 6))}
    name = 'distribution %s K=%d D=%d N=%d gain span 1e%.0f opts=%s' % (kind, K, D, N, span(rp['c']), rp['opts'])
    fail, key, coq = eval_dist(rp)
    nt = (span(rp['c']) >= 20) or (kind == 'rawphase' and np.ptp(np.angle(rp['c'])) > np.pi / 2)
    return Case(name, coq=coq, pred_fail=fail, key=key, nontrivial=bool(nt), digest_=core.digest(name, rp['y'], rp['c']),
                sample={'name': name, 'y': core.small(rp['y'], 3), 'c': core.small(rp['c'], 3)}, replay=rp, kind='dist/' + kind)


def eval_dist(rp):
    import pb_bss.distribution as d
    from pb_bss.distribution.complex_angular_central_gaussian import normalize_observation
    from pb_bss.distribution.complex_bingham import ComplexBingham, ComplexBinghamTrainer
    kind, K, D, N = rp['kind'], rp['K'], rp['D'], rp['N']
    y, c = np.array(rp['y']), np.array(rp['c'])
    cy = y * c
    y.setflags(write=False)
    cy.setflags(write=False)
    r = np.random.default_rng(rp['seed'] + 1)
    n = int(r.integers(0, N))
    k = int(r.integers(0, K))
    o = rp['opts']
    sal = rp.get('saliency')
    tol = 1e-9
    try:
        if kind == 'cacg':
            A = mm.crandn(r, (K, D, D + 2))
            cov = A @ np.swapaxes(A.conj(), -1, -2)
            m = d.ComplexAngularCentralGaussian.from_covariance(cov.copy(), eigenvalue_floor=o['eigenvalue_floor'],
                                                               covariance_norm=o['covariance_norm'])
            l1, l2 = m.log_pdf(y[None]), m.log_pdf(cy[None])
            if rel(l1, l2) > tol:
                return ('ComplexAngularCentralGaussian.log_pdf(c*y) differs from log_pdf(y) by %.3g (relative)' % rel(l1, l2),
                        'dist:cacg:log_pdf', None)
            if rel(l1 - l1[:1], l2 - l2[:1]) > tol:
                return 'cACG log-density differences between classes change under gains', 'dist:cacg:diff', None
            ny, ncy = normalize_observation(y), normalize_observation(cy)      # (D, N)
            (lp, q), (lpc, qc) = m._log_pdf(ny[None]), m._log_pdf(ncy[None])
            coq = 'allR [check_unit true %d %s %s %s %s %s %s; check_cacg true %d %s %s %s %s %s %s %s]' % (
                D, core.fhex(TINY), cp(c[n, 0]), crow(y[n]), crow(cy[n]), crow(ny[:, n]), crow(ncy[:, n]),
                D, core.fhex(TINY), core.cmat(m.covariance_eigenvectors[k]), core.flist(m.covariance_eigenvalues[k]),
                crow(y[n]), crow(cy[n]), core.flist([q[k, n], lp[k, n]]), core.flist([qc[k, n], lpc[k, n]]))
            return None, None, coq
        if kind == 'rawphase':
            yu = y / np.linalg.norm(y, axis=-1, keepdims=True)
            uy = yu * c
            mode = mm.crandn(r, (K, D))
            mode /= np.linalg.norm(mode, axis=-1, keepdims=True)
            w = d.ComplexWatson(mode=mode, concentration=r.uniform(0.5, 30.0, size=(K,)))
            Q = np.linalg.qr(mm.crandn(r, (K, D, D)))[0]
            ev = -np.sort(r.uniform(0.5, 20.0, size=(K, D)), axis=-1)
            ev[..., 0] = 0.0
            bm = ComplexBingham(covariance_eigenvectors=Q, covariance_eigenvalues=ev)
            w1, w2 = w.log_pdf(yu[None]), w.log_pdf(uy[None])
            b1, b2 = bm.log_pdf(yu[None]), bm.log_pdf(uy[None])
            if rel(w1, w2) > tol:
                return 'ComplexWatson.log_pdf changes under a unit phasor per observation by %.3g' % rel(w1, w2), 'dist:watson:phase', None
            if rel(b1, b2) > tol:
                return 'ComplexBingham.log_pdf changes under a unit phasor per observation by %.3g' % rel(b1, b2), 'dist:bingham:phase', None
            coq = 'check_raw_phase %d %s %s %s %s %s %s %s %s %s %s %s %s' % (
                D, crow(mode[k]), core.fhex(w.concentration[k]), core.fhex(w.log_norm()[k]),
                core.cmat(Q[k]), core.flist(ev[k]), core.fhex(bm.log_norm()[k]), crow(yu[n]), crow(uy[n]),
                core.fhex(w1[k, n]), core.fhex(w2[k, n]), core.fhex(b1[k, n]), core.fhex(b2[k, n]))
            return None, None, coq
        if kind == 'vmf':
            mean = r.normal(size=(K, D))
            mean /= np.linalg.norm(mean, axis=-1, keepdims=True)
            v = d.VonMisesFisher(mean=mean, concentration=r.uniform(0.5, 50.0, size=(K,)))
            l1, l2 = v.log_pdf(y[None]), v.log_pdf(cy[None])
            if rel(l1, l2) > tol:
                return 'VonMisesFisher.log_pdf(c*y), c > 0, differs from log_pdf(y) by %.3g' % rel(l1, l2), 'dist:vmf:log_pdf', None
            un = lambda a: a / np.maximum(np.linalg.norm(a), TINY)
            coq = 'check_vmf %d %s %s %s %s %s %s %s %s %s %s' % (
                D, core.fhex(TINY), core.flist(mean[k]), core.fhex(v.concentration[k]), core.fhex(v.log_norm()[k]),
                core.flist(y[n]), core.flist(cy[n]), core.flist(un(y[n])), core.flist(un(cy[n])), core.fhex(l1[k, n]), core.fhex(l2[k, n]))
            return None, None, coq
        if kind == 'cacg_fit':
            kw = dict(hermitize=o['hermitize'], covariance_norm=o['covariance_norm'], eigenvalue_floor=o['eigenvalue_floor'],
                      iterations=o['iterations'])
            with EighTap() as tap1:
                m1 = d.ComplexAngularCentralGaussianTrainer().fit(y, **kw)
            with EighTap() as tap2:
                m2 = d.ComplexAngularCentralGaussianTrainer().fit(cy, **kw)
            e = relm(m1.covariance, m2.covariance)
            if e > tol:
                return 'ComplexAngularCentralGaussianTrainer.fit(c*y): covariance differs by %.3g (relative)' % e, 'dist:cacg:fit', None
            ones = np.ones(N)
            coq = 'check_cov true %s %d %d %d %s %s %s %s %s %s %s %s' % (
                core.cbool(o['hermitize']), covnorm_code(o['covariance_norm']), D - 1, N, core.fhex(TINY), core.flist(ones), core.flist(ones),
                core.flist(ones), core.cmat(y), core.cmat(cy), core.cmat(tap1.calls[0]), core.cmat(tap2.calls[0]))
            return None, None, coq
        if kind == 'watson_fit':
            # one trainer object for both recordings (seed parity), optionally constructed with the dimension
            T1 = d.ComplexWatsonTrainer(dimension=D) if rp['seed'] % 3 == 0 else d.ComplexWatsonTrainer()
            T2 = T1 if rp['seed'] % 2 == 0 else d.ComplexWatsonTrainer()
            m1 = T1.fit(y, saliency=sal)
            m2 = T2.fit(cy, saliency=sal)
            p1, p2 = np.outer(m1.mode, m1.mode.conj()), np.outer(m2.mode, m2.mode.conj())
            if rel(p1, p2) > tol or rel(m1.concentration, m2.concentration) > 1e-7:
                return ('ComplexWatsonTrainer.fit(c*y): mode projector differs by %.3g, concentration by %.3g'
                        % (rel(p1, p2), rel(m1.concentration, m2.concentration))), 'dist:watson:fit', None
            return None, None, None
        if kind == 'bingham_fit':
            T1 = ComplexBinghamTrainer(dimension=D) if rp['seed'] % 3 == 0 else ComplexBinghamTrainer()
            T2 = T1 if rp['seed'] % 2 == 0 else ComplexBinghamTrainer()
            m1 = T1.fit(y, saliency=sal)
            m2 = T2.fit(cy, saliency=sal)
            e = relm(m1.covariance, m2.covariance)
            if e > 1e-6:
                return 'ComplexBinghamTrainer.fit(c*y): parameter matrix differs by %.3g (relative)' % e, 'dist:bingham:fit', None
            return None, None, None
        if kind == 'vmf_fit':
            T1 = d.VonMisesFisherTrainer()
            T2 = T1 if rp['seed'] % 2 == 0 else d.VonMisesFisherTrainer()
            m1 = T1.fit(y, saliency=sal)
            m2 = T2.fit(cy, saliency=sal)
            if rel(m1.mean, m2.mean) > tol or rel(m1.concentration, m2.concentration) > tol:
                return ('VonMisesFisherTrainer.fit(c*y), c > 0: mean differs by %.3g, concentration by %.3g'
                        % (rel(m1.mean, m2.mean), rel(m1.concentration, m2.concentration))), 'dist:vmf:fit', None
            return None, None, None
    except Exception as e:
        return '%s raised %s on a regular input: %s' % (kind, type(e).__name__, str(e)[:200]), 'dist:%s:raises' % kind, None
    raise ValueError(kind)


# ----------------------------------------------------------------------------- B: mixture models
_PROFILE = {}
_CM = {}


def near_one_gains(rng, shape, real=False, width=8e-6):
    """gains whose magnitude is within `width` of one (an observation that is ALMOST normalised already is still an
    observation with gains: c.y must give what y gives)"""
    mag = 1.0 + rng.uniform(-width, width, size=shape)
    return mag if real else mag * np.exp(2j * np.pi * rng.random(shape))


def case_model(rng, tier, i, name=None, large=False, profile=None):
    name = name or DIRECTIONAL[int(rng.integers(0, len(DIRECTIONAL)))]
    K = int(rng.integers(2, 5))
    D = int(rng.integers(2, 6))
    N = K * (D + 2) + int(rng.integers(0, 9))
    if large:
        K, D, N = 2, 3, int(rng.integers(18000, 40000))        # a long recording (block-wise normalisation, remainders)
    if name in mm.INTEGRATION:
        lead = (int(rng.integers(2, 4)),) if profile == 'viewed' else (int(rng.integers(1, 4)),)
    else:
        lead = tuple(int(v) for v in rng.integers(1, 4, int(rng.integers(0, 3))))
    if name == 'cbmm':
        D, K = min(D, 3), min(K, 3)
        N = K * (D + 2) + int(rng.integers(0, 4))
    if large:
        lead = (1,) if name in mm.INTEGRATION else ()
    data = mm.make_data(rng, name, K, D, N, lead, separation=float(rng.choice([0.5, 2.0, 8.0])))
    data = {k: v for k, v in data.items() if k != 'labels'}
    if profile == 'near1':
        # unit-norm frames (as a caller who normalised beforehand would pass them), gains within 8e-6 / 1e-7 of one
        data = {k: (v / np.linalg.norm(v, axis=-1, keepdims=True) if k in ('y', 'observation', 'embedding') else v) for k, v in data.items()}
    if profile == 'single':
        # single-precision STFT next to a double-precision embedding whose gains leave the float32 range
        data['observation'] = data['observation'].astype(np.complex64)
    style = ['positive', 'dirichlet'][int(rng.integers(0, 2))]
    init = mm.make_init(rng, K, N, lead, style)
    opts = mm.sample_options(rng, name, K, N, lead, with_aligner=(rng.random() < 0.15))
    iters = int(rng.integers(1, 6))
    if large:
        opts = {'weight_constant_axis': (-1,)}
        iters = int(rng.integers(1, 4))
    cs = ce = None
    if name in mm.INTEGRATION:
        which = int(rng.integers(0, 3)) if name == 'vmfcacgmm' else 0
        if which in (0, 2):
            cs = gains(rng, data['observation'].shape[:-1] + (1,))
        if which in (1, 2):
            ce = gains(rng, data['embedding'].shape[:-1] + (1,), real=True)
    elif name == 'vmfmm':
        ce = gains(rng, data['y'].shape[:-1] + (1,), real=True)
    else:
        cs = gains(rng, data['y'].shape[:-1] + (1,))
    if profile == 'near1':
        _PROFILE[name] = _PROFILE.get(name, 0) + 1
        width = [8e-6, 1e-7][_PROFILE[name] % 2]
        cs = None if cs is None else near_one_gains(rng, cs.shape, width=width)
        ce = None if ce is None else near_one_gains(rng, ce.shape, real=True, width=width)
    if profile == 'single':
        cs, ce = None, gains(rng, data['embedding'].shape[:-1] + (1,), real=True)
    if profile == 'viewed':
        # moderate gains (three decades) on the embedding alone, every array handed over as a non-contiguous view
        if name == 'vmfcacgmm':
            cs, ce = None, 10.0 ** rng.uniform(-3, 3, size=data['embedding'].shape[:-1] + (1,))
        else:       # the Gaussian embedding stream of GCACGMM is not a directional stream: gains on the observation only
            cs, ce = gains(rng, data['observation'].shape[:-1] + (1,)), None
    u = rng.random()
    start = 'num_classes' if (u < 0.1 and 'source_activity_mask' not in opts) else ('model' if (u < 0.3 and name == 'cacgmm') else 'init')
    _CM[name] = _CM.get(name, 0) + 1
    if profile == 'viewed':
        start, _CM[name] = 'init', 3 * (_CM[name] // 3) + 2
    rp = {'fn': 'model', 'model': name, 'data': data, 'init': init, 'cs': cs, 'ce': ce, 'start': start,
          'container': _CM[name] % 3,        # plain / reused trainer with refilled buffers / non-contiguous views: every model, every run
          'np_seed': int(rng.integers(0, 2 ** 31)),
          'opts': {k: v for k, v in opts.items() if k != 'inline_permutation_aligner'},
          'aligner': 'inline_permutation_aligner' in opts, 'iterations': iters, 'pick': int(rng.integers(0, 2 ** 31))}
    sp = max(span(c) for c in (cs, ce) if c is not None)
    label = 'fit/predict %s%s K=%d D=%d N=%d lead=%s iters=%d start=%s gains=%s span 1e%.0f opts=%s' % (
        name, '' if profile is None else '/' + profile, K, D, N, lead, iters, style if start == 'init' else start, '+'.join(s for s, c in (('spatial', cs), ('embedding', ce)) if c is not None), sp,
        mm.describe_options(opts))
    fail, key, coq, nt = eval_model(rp)
    return Case(label, coq=coq, pred_fail=fail, key=key, nontrivial=bool(nt and (sp >= 20 or profile in ('near1', 'viewed'))),
                digest_=core.digest(label, *data.values(), init, *[c for c in (cs, ce) if c is not None]),
                sample={'name': label}, replay=rp, kind='model/' + name)


def eval_model(rp):
    name = rp['model']
    data = {k: np.array(v) for k, v in rp['data'].items()}
    cs = None if rp['cs'] is None else np.array(rp['cs'])
    ce = None if rp['ce'] is None else np.array(rp['ce'])
    d2 = scale_data(name, data, cs, ce)
    for v in list(data.values()) + list(d2.values()):
        v.setflags(write=False)
    opts = dict(rp['opts'])
    if isinstance(opts.get('weight_constant_axis'), list) and name in mm.INTEGRATION:
        opts['weight_constant_axis'] = tuple(opts['weight_constant_axis'])
    if rp.get('aligner'):
        from pb_bss.permutation_alignment import GreedyPermutationAlignment
        opts['inline_permutation_aligner'] = GreedyPermutationAlignment(similarity_metric='cos')
    init = np.array(rp['init'])
    init.setflags(write=False)
    K, N = init.shape[-2:]
    lead = init.shape[:-2]
    iters = rp['iterations']
    mask = opts.get('source_activity_mask')
    pk = {'source_activity_mask': mask} if (name == 'cacgmm' and mask is not None) else {}
    # after fitting the cBMM parameters come out of scipy.optimize.least_squares (stopping tolerance 1e-8)
    # cBMM: the Bingham eigenvalues come out of scipy.optimize.least_squares with ftol = 1e-8, i.e. ~1e-4 in the argument; two
    # fits whose scatter matrices differ by 1e-11 may stop one step apart and the posteriors of the fitted models then differ
    # by ~1e-4 (soak #11, seed 113).  The E-step comparison for ONE fitted model below keeps the tight bound.
    tol = 1e-3 if name == 'cbmm' else 1e-9 * (1 if iters == 1 else 10)
    single = any(v.dtype in (np.complex64, np.float32) for v in data.values())
    start = rp.get('start', 'init')

    def run(dd, first):
        np.random.seed(rp.get('np_seed', 0))
        if start == 'num_classes':
            return mm.fit(name, dd, None, num_classes=K, iterations=iters, **opts)
        if start == 'model':        # continue from a fitted model (E-step first); the start model is fitted on y
            return mm.fit(name, dd, first, iterations=iters, **{k: v for k, v in opts.items()})
        return mm.fit(name, dd, init, iterations=iters, container=rp.get('container'), **opts)
    try:
        m0 = mm.fit(name, data, init, iterations=1, **opts)[0] if start == 'model' else None
        with EighTap() as tap1:
            m1, tr1 = run(data, m0)
        p11 = mm.predict(name, m1, data, **pk)
    except EXPLICIT as e:
        # the library refuses this input already without gains (e.g. a class scatter that is numerically singular): outside C04
        return None, None, None, False
    except Exception as e:
        return ('fit/predict raised %s on a regular input: %s' % (type(e).__name__, str(e)[:300]),
                'model:raises:%s:%s' % (name, type(e).__name__), None, False)
    try:
        with EighTap() as tap2:
            m2, tr2 = run(d2, m0)
        p22 = mm.predict(name, m2, d2, **pk)
        p12 = mm.predict(name, m1, d2, **pk)
    except Exception as e:
        return ('%s: fit/predict succeed on y but raise %s on c*y: %s' % (name, type(e).__name__, str(e)[:300]),
                'model:raises-scaled:%s:%s' % (name, type(e).__name__), None, False)
    # conditioning: a cACG eigenvalue lam amplifies rounding in the quadratic form by 1/lam (floored eigenvalues: 1e10);
    # "up to rounding" is read as 1e-13 / lam_min where that exceeds the base tolerance
    lam_min = 1.0
    if name in ('cacgmm', 'gcacgmm', 'vmfcacgmm'):
        lam_min = min(float((np.min(r['model'].cacg.covariance_eigenvalues, axis=-1)
                             / np.max(r['model'].cacg.covariance_eigenvalues, axis=-1)).min()) for r in tr1)
    ptol = max(1e-9, 1e-13 / lam_min)
    if single:
        # a 1e-16 difference in the double-precision stream can flip a float32 rounding of the spatial stream
        ptol = max(ptol, 1e-3)
    tol = max(tol, 10 * ptol if iters > 1 else ptol)
    well = tol <= 1e-7 or name == 'cbmm'
    # E-step alone: the same fitted model applied to y and to c.y
    if rel(p11, p12) > ptol:
        return ('%s: predict(c*y) differs from predict(y) for the SAME fitted model by %.3g' % (name, rel(p11, p12)),
                'model:predict:%s' % name, None, False)
    # whole trajectory
    cache = {}

    def excused(e):
        """conditioning probe (only reached when a trajectory comparison fails): the same fit on y with start and data
        perturbed at the 1e-13 level in random DIRECTIONS (not a gain).  A deviation that such a perturbation reproduces is
        rounding amplified by an ill-conditioned trajectory (collapsing class, diverging concentration, least_squares
        stopping tolerance), not a dependence on the gains."""
        if start != 'init':
            return False
        if 'v' not in cache:
            pr = np.random.default_rng(rp['pick'] + 1)
            ip = init + 1e-13 * pr.random(init.shape)
            ip = ip / ip.sum(-2, keepdims=True)
            dp = {}
            for kk, vv in data.items():
                if np.iscomplexobj(vv):
                    dp[kk] = vv * (1 + 1e-13 * (pr.uniform(-1, 1, vv.shape) + 1j * pr.uniform(-1, 1, vv.shape)))
                else:
                    dp[kk] = vv * (1 + 1e-13 * pr.uniform(-1, 1, vv.shape))
            try:
                mp, _ = mm.fit(name, dp, ip, iterations=iters, container=rp.get('container'), **opts)     # same container as the fit under test
                op = observables(name, mp)
                vals = [relm(o1[kq], op[kq]) if 'covariance' in kq or 'projector' in kq else rel(o1[kq], op[kq]) for kq in o1]
                vals.append(rel(p11, mm.predict(name, mp, dp, **pk)))
                cache['v'] = max(vals)
            except Exception:
                cache['v'] = np.inf
        return e <= 10 * cache['v']
    o1, o2 = observables(name, m1), observables(name, m2)
    for kq in o1:
        e = relm(o1[kq], o2[kq]) if 'covariance' in kq or 'projector' in kq else rel(o1[kq], o2[kq])
        # the Bingham eigenvalues come out of scipy.optimize.least_squares with ftol = 1e-8, i.e. ~1e-4 in the argument:
        # two runs whose scatter matrices differ by 1e-11 may stop one step apart (weights and posteriors keep the tight bound)
        if e > (max(tol, 1e-4) if (name == 'cbmm' and kq.startswith('bingham')) else tol):
            if excused(e):
                return None, None, None, False
            return ('%s: fitted %s differs between fit(y) and fit(c*y) after %d iteration(s) by %.3g (relative)' % (name, kq, iters, e),
                    'model:fit:%s:%s' % (name, kq.split('.')[0]), None, False)
    if rel(p11, p22) > tol:
        if excused(rel(p11, p22)):
            return None, None, None, False
        return ('%s: posteriors of fit+predict differ between y and c*y after %d iteration(s) by %.3g' % (name, iters, rel(p11, p22)),
                'model:fitpredict:%s' % name, None, False)
    # every in-loop E-step
    for it, (a, b) in enumerate(zip(tr1, tr2)):
        if 'affiliation' in a and rel(a['affiliation'], b['affiliation']) > tol:
            if excused(rel(a['affiliation'], b['affiliation'])):
                return None, None, None, False
            return ('%s: affiliation entering M-step %d differs between y and c*y by %.3g' % (name, it + 1, rel(a['affiliation'], b['affiliation'])),
                    'model:estep:%s' % name, None, False)
        if 'quadratic_form' in a and rel(a['quadratic_form'], b['quadratic_form']) > tol * max(1.0, np.abs(a['quadratic_form']).max()):
            return ('%s: quadratic form entering M-step %d differs between y and c*y' % (name, it + 1), 'model:quad:%s' % name, None, False)
    # component log-pdfs: differences between classes
    try:
        lp1, _ = mm.components(name, m1, data)
        lp2, _ = mm.components(name, m1, d2)
    except Exception as e:
        return 'component log_pdf raised %s: %s' % (type(e).__name__, str(e)[:200]), 'model:logpdf:%s' % name, None, False
    dd1, dd2 = lp1 - lp1[..., :1, :], lp2 - lp2[..., :1, :]
    if np.all(np.isfinite(dd1)) and rel(dd1, dd2) > ptol:
        return ('%s: log-density differences between classes change under gains by %.3g' % (name, rel(dd1, dd2)),
                'model:logpdfdiff:%s' % name, None, False)
    if name == 'cacgmm':
        ll1, ll2, ll3 = m1.log_likelihood(data['y']), m2.log_likelihood(d2['y']), m1.log_likelihood(d2['y'])
        if rel(ll1, ll3) > ptol or rel(ll1, ll2) > tol:
            return ('cacgmm: log_likelihood %.12g (y) vs %.12g (c*y, same model) vs %.12g (c*y, refitted)' % (ll1, ll3, ll2),
                    'model:loglik:cacgmm', None, False)
    nt = well and K >= 2 and bool(((p11 > 0.01) & (p11 < 0.99)).any())
    if N > 2000 or single:
        return None, None, None, nt          # no Coq literal for a long recording / single precision: the predicates above decide
    return None, None, coq_model(rp, name, data, d2, cs, ce, tr1, opts, m1, m2, tap1, tap2, lead, K, N), nt


def coq_model(rp, name, data, d2, cs, ce, tr1, opts, m1, m2, tap1, tap2, lead, K, N):
    from pb_bss.distribution.complex_angular_central_gaussian import normalize_observation
    r = np.random.default_rng(rp['pick'])
    li = tuple(int(r.integers(0, s)) for s in lead)
    k, n = int(r.integers(0, K)), int(r.integers(0, N))
    parts = []
    sal = opts.get('saliency')
    if name in ('cacgmm', 'gcacgmm', 'vmfcacgmm'):
        key = 'observation' if name in mm.INTEGRATION else 'y'
        y, cy = data[key], d2[key]
        D = y.shape[-1]
        where = name == 'cacgmm'

        def first(tap):
            for a in tap.calls:
                if np.iscomplexobj(a) and a.shape == (*lead, K, D, D):
                    return a
            return None
        c1, c2 = first(tap1), first(tap2)
        if c1 is not None and c2 is not None:
            srow = np.ones(N) if sal is None else sal[li]
            parts.append('check_cov %s %s %d %d %d %s %s %s %s %s %s %s %s' % (
                core.cbool(where), core.cbool(opts.get('hermitize', True)), covnorm_code(opts.get('covariance_norm', 'eigenvalue')),
                D - 1, N, core.fhex(TINY), core.flist(srow), core.flist(np.broadcast_to(tr1[0]['affiliation'], (*lead, K, N))[li][k]),
                core.flist(np.broadcast_to(tr1[0].get('quadratic_form', np.ones((*lead, K, N))), (*lead, K, N))[li][k]),
                core.cmat(y[li]), core.cmat(cy[li]), core.cmat(c1[li][k]), core.cmat(c2[li][k])))
        if where:
            ny, ncy = normalize_observation(y), normalize_observation(cy)
        else:
            ny = np.swapaxes(y / np.maximum(np.linalg.norm(y, axis=-1, keepdims=True), TINY), -1, -2)
            ncy = np.swapaxes(cy / np.maximum(np.linalg.norm(cy, axis=-1, keepdims=True), TINY), -1, -2)
        (lp, q), (lpc, qc) = m1.cacg._log_pdf(ny[..., None, :, :]), m1.cacg._log_pdf(ncy[..., None, :, :])
        U, lam = m1.cacg.covariance_eigenvectors[li][k], m1.cacg.covariance_eigenvalues[li][k]
        cg = 1.0 if cs is None else cs[li][n, 0]
        parts.append('check_unit %s %d %s %s %s %s %s %s' % (core.cbool(where), D, core.fhex(TINY), cp(cg), crow(y[li][n]),
                                                       crow(cy[li][n]), crow(ny[li][:, n]), crow(ncy[li][:, n])))
        if lam.min() / lam.max() >= 1e-5:
            parts.append('check_cacg %s %d %s %s %s %s %s %s %s' % (
                core.cbool(where), D, core.fhex(TINY), core.cmat(U), core.flist(lam), crow(y[li][n]), crow(cy[li][n]),
                core.flist([q[li][k, n], lp[li][k, n]]), core.flist([qc[li][k, n], lpc[li][k, n]])))
    if name in ('cwmm', 'cbmm'):
        y, cy = data['y'], d2['y']
        D = y.shape[-1]
        un = lambda a: a / np.maximum(np.linalg.norm(a, axis=-1, keepdims=True), TINY)
        if name == 'cwmm':
            cw = m1.complex_watson
            l1, l2 = cw.log_pdf(un(un(y))[..., None, :, :]), cw.log_pdf(un(un(cy))[..., None, :, :])
            parts.append('check_watson %d %s %s %s %s %s %s %s %s' % (
                D - 1, core.fhex(TINY), crow(cw.mode[li][k]), core.fhex(cw.concentration[li][k]), core.fhex(cw.log_norm()[li][k]),
                core.cmat(y[li][n:n + 1]), core.cmat(cy[li][n:n + 1]), core.fhex(l1[li][k, n]), core.fhex(l2[li][k, n])))
        else:
            cb = m1.complex_bingham
            l1, l2 = cb.log_pdf(un(un(y))[..., None, :, :]), cb.log_pdf(un(un(cy))[..., None, :, :])
            parts.append('check_bingham %d %s %s %s %s %s %s %s %s' % (
                D - 1, core.fhex(TINY), core.cmat(cb.covariance_eigenvectors[li][k]), core.flist(cb.covariance_eigenvalues[li][k]),
                core.fhex(cb.log_norm()[li][k]), core.cmat(y[li][n:n + 1]), core.cmat(cy[li][n:n + 1]),
                core.fhex(l1[li][k, n]), core.fhex(l2[li][k, n])))
    if name in ('vmfmm', 'vmfcacgmm'):
        key = 'embedding' if name == 'vmfcacgmm' else 'y'
        v, cv = data[key], d2[key]
        E = v.shape[-1]
        vm = m1.vmf
        un = lambda a: a / np.maximum(np.linalg.norm(a), TINY)
        if name == 'vmfmm':
            mean, kap, ln = vm.mean[li][k], vm.concentration[li][k], vm.log_norm()[li][k]
            l1, l2 = vm.log_pdf(v[..., None, :, :])[li][k, n], vm.log_pdf(cv[..., None, :, :])[li][k, n]
        else:
            mean, kap, ln = vm.mean[k], vm.concentration[k], vm.log_norm()[k]
            l1, l2 = vm.log_pdf(v[li][None])[k, n], vm.log_pdf(cv[li][None])[k, n]
        parts.append('check_vmf %d %s %s %s %s %s %s %s %s %s %s' % (
            E, core.fhex(TINY), core.flist(mean), core.fhex(kap), core.fhex(ln), core.flist(v[li][n]), core.flist(cv[li][n]),
            core.flist(un(v[li][n])), core.flist(un(cv[li][n])), core.fhex(l1), core.fhex(l2)))
    return 'allR [%s]' % '; '.join(parts) if parts else None


# -----------------------------------------------------------------------------
def cases(rng, tier):
    q = tier == 'quick'
    out = []
    for i in range(35 if q else 350):
        out.append(case_dist(rng, tier, i))
    for i in range(66 if q else 660):
        out.append(case_model(rng, tier, i, name=DIRECTIONAL[i % len(DIRECTIONAL)],
                              profile='near1' if (i // len(DIRECTIONAL)) % 4 == 3 else None))
    for i in range(2 if q else 12):
        out.append(case_model(rng, tier, i, name='vmfcacgmm', profile='single'))
    for i in range(4 if q else 12):
        out.append(case_model(rng, tier, i, name=['vmfcacgmm', 'vmfcacgmm', 'vmfcacgmm', 'gcacgmm'][i % 4], profile='viewed'))
    for i in range(3 if q else 12):
        out.append(case_model(rng, tier, i, name=['cacgmm', 'cwmm', 'vmfmm', 'cacgmm'][i % 4], large=True))
    return out


def search(rng, tier, hints):
    for i in range(200 if tier == 'quick' else 1500):
        c = case_dist(rng, tier, i) if i % 3 == 0 else case_model(rng, tier, i)
        if c.pred_fail:
            return [c]
    return []


def replay(payload):
    rp = payload['replay']
    return eval_dist(rp)[0] if rp['fn'] == 'dist' else eval_model(rp)[0]
