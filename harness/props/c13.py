"""C13 -- beamforming helpers agree with their primitives and act per leading index
(get_bf_vector, apply_beamforming_vector, phase_correction, stable_solve's singular branch inside
get_mvdr_vector_souden / get_wmwf_vector; pb_bss/extraction/beamformer_wrapper.py, beamformer.py, math/solve.py).

Correspondence
 * names: the list of accepted names is DERIVED from the source of get_bf_vector (ast) and must be the Coq
   table bf_name_table (12 cores + ch<N>, each with/without '+ban'); for every name the model's parse
   (get_bf_vector on Coq strings run on symbolic primitives) must be the (pre-step, core, ban) structure whose
   composition of library primitives reproduces the implementation's result; names the implementation rejects
   must be rejected by the model.
 * apply_beamforming_vector and phase_correction: per leading index against the model on PrimFloat.
 * Souden / WMWF on stacks with singular or zero bins: composition step against the model.
Predicates (independent NumPy): get_bf_vector == spelled composition (with kwargs, 0..2 extra leading axes),
w^H x, magnitudes kept, consecutive bins aligned per leading index, stack == stack of slices, finite output on
singular / zero bins, regular bins unaffected by singular neighbours, inputs unmodified."""
import ast
import inspect
import numpy as np
from harness import core
from harness.core import Case
from harness.props.c11 import herm, crandn, rand_hpd, rank1_psd, pick_bins, relerr, frozen, TINY

PID = 'C13'
REQUIRES = ['Run.C13']
RULE = ('every name accepted by get_bf_vector (derived from its source: 12 cores + ch0..ch<D-1>, with and without +ban) '
        'x keyword arguments (explicit reference channel, scaling, use_eig, distortion weight, atf_kwargs) x 0..2 extra '
        'leading axes, F 1..32, D 2..8; rejected names; phase_correction on stacks with 0..2 leading axes incl. zero bins '
        'and F > 2; Souden/WMWF with any subset of bins zero, exactly singular (zero row/column) or rank deficient; '
        'non-trivial: differing content per leading index, F >= 3 for phase cases; distinct by SHA-1 of inputs and options')
NOT_PROVED = ('finiteness of Souden MVDR / WMWF on singular or zero PSD matrices and independence of regular bins from singular '
              'neighbours are binary64 / LAPACK behaviour: explored on every run (predicates), not proved; WMWF is exercised '
              'with distortion weights > 0 on singular bins (mu = 0 on an all-zero bin is 0/0); binary64 rounding 2^-30; '
              'keyword arguments travel inside the abstract primitives of the dispatcher theorem')
ASSUMPTIONS = ['names are ASCII; channel numbers below the number of sensors',
               'the composition a name spells is evaluated with the library\'s own primitives (their properties are C11/C12)']
SHARD = 12

CORE_CODE = {'pca': (0, 0), 'pca+mvdr': (0, 1), 'scaled_gev_atf+mvdr': (0, 2),
             'mvdr_souden': (0, 3), 'rank1_pca+mvdr_souden': (1, 3), 'rank1_gev+mvdr_souden': (2, 3),
             'gev': (0, 4), 'rank1_pca+gev': (1, 4), 'rank1_gev+gev': (2, 4),
             'wmwf': (0, 5), 'rank1_pca+wmwf': (1, 5), 'rank1_gev+wmwf': (2, 5)}
REJECTED = ['mvdr', 'gev+ban+ban', 'pca+gev', 'ban', '+ban', '', 'ch', 'chx', 'lcmv', 'lcmv+ban', 'rank1_pca',
            'rank1_gev+pca', 'souden', 'GEV', 'gev ', 'xch1', 'c1', 'ch1x', 'rank1_pca+lcmv', 'pca+mvdr+', 'wmwf+BAN']


def derive_core_names():
    """string literals `beamformer_core` is compared with inside get_bf_vector"""
    from pb_bss.extraction import beamformer_wrapper as bw
    tree = ast.parse(inspect.getsource(bw.get_bf_vector))
    names = []
    for node in ast.walk(tree):
        if isinstance(node, ast.Compare) and isinstance(node.left, ast.Name) and node.left.id == 'beamformer_core':
            for op, cmp_ in zip(node.ops, node.comparators):
                if isinstance(op, ast.Eq) and isinstance(cmp_, ast.Constant) and isinstance(cmp_.value, str):
                    names.append(cmp_.value)
                if isinstance(op, ast.In) and isinstance(cmp_, (ast.List, ast.Tuple)):
                    names += [e.value for e in cmp_.elts if isinstance(e, ast.Constant) and isinstance(e.value, str)]
    out = []
    for n in names:
        if n not in out:
            out.append(n)
    return out


def spelled(spec, Px, Pn, kw):
    """the composition of library primitives a name spells"""
    from pb_bss.extraction import beamformer as bf
    from pb_bss.extraction import beamformer_wrapper as bw
    pre, cc, ban = spec
    kw = dict(kw)
    atf_kw = dict(kw.pop('atf_kwargs', {}))
    if pre == 1:
        Px = bw.get_pca_rank_one_estimate(Px, **atf_kw)
    elif pre == 2:
        Px = bw.get_gev_rank_one_estimate(Px, Pn, **atf_kw)
    if cc == 0:
        w = bf.get_pca_vector(Px, **kw)
    elif cc == 1:
        w = bf.get_mvdr_vector(bf.get_pca_vector(Px, **atf_kw), Pn)
    elif cc == 2:
        w = bf.get_mvdr_vector(bw._get_gev_atf_vector(Px, Pn, **atf_kw), Pn)
    elif cc == 3:
        w = bf.get_mvdr_vector_souden(Px, Pn, **kw)
    elif cc == 4:
        w = bf.get_gev_vector(Px, Pn, **kw)
    elif cc == 5:
        w = bf.get_wmwf_vector(Px, Pn, **kw)
    else:
        e = np.zeros(Px.shape[-1])
        e[cc - 100] = 1
        w = np.broadcast_to(e, Px.shape[:-1])
    if ban:
        w = bf.blind_analytic_normalization(w, Pn)
    return w


_RC = [0]


def rand_kwargs(rng, cc, pre, D, auto_ok):
    kw = {}
    if cc == 0 and rng.random() < 0.6:
        kw['scaling'] = str(rng.choice(['trace', 'eigenvalue']))
    if cc == 1 and rng.random() < 0.5:
        kw['atf_kwargs'] = {'scaling': str(rng.choice(['trace', 'eigenvalue']))}
    if cc == 2 and rng.random() < 0.4:
        kw['atf_kwargs'] = {'use_eig': True}
    if cc == 3:
        if not auto_ok or rng.random() < 0.6:
            _RC[0] += 1
            kw['ref_channel'] = (0, D - 1, int(rng.integers(0, D)))[_RC[0] % 3]        # channel 0 is falsy: stratified
        if rng.random() < 0.2:
            kw['eps'] = 1e-10
    if cc == 4 and rng.random() < 0.4:
        kw['use_eig'] = True
    if cc == 5:
        if not auto_ok or rng.random() < 0.6:
            _RC[0] += 1
            kw['reference_channel'] = (0, D - 1, int(rng.integers(0, D)))[_RC[0] % 3]
        if rng.random() < 0.6:
            kw['distortion_weight'] = float(rng.choice([0.0, 0.5, 1.0, 7.0, 100.0]))
    if pre == 1 and rng.random() < 0.4:
        kw['atf_kwargs'] = {'scaling': str(rng.choice(['trace', 'eigenvalue']))}
    if pre == 2 and rng.random() < 0.3:
        kw['atf_kwargs'] = {'use_eig': True}
    return kw


# ----------------------------------------------------------------------------- names
def make_name(rng, tier, name, spec, reject=False):
    D = int(rng.integers(2, 9))
    if not reject and spec[1] >= 100:
        D = max(D, spec[1] - 100 + 1)
    nlead = int(rng.choice([0, 0, 1, 2]))
    lead = tuple(int(v) for v in rng.integers(1, 4, nlead))
    F = int(rng.integers(1, 33 if tier == 'thorough' else 13))
    scale = 10.0 ** rng.integers(-2, 3)
    Pn = rand_hpd(rng, lead + (F,), D, scale=scale * 10.0 ** rng.uniform(-1, 1), max_cond=1e4)
    Px = rand_hpd(rng, lead + (F,), D, scale=scale, max_cond=1e4) if rng.random() < 0.6 else rank1_psd(rng, lead + (F,), D, scale)[0]
    kw = {} if reject else rand_kwargs(rng, spec[1], spec[0], D, auto_ok=(nlead == 0))
    rp = {'fn': 'name', 'name': name, 'spec': None if reject else list(spec), 'Px': Px, 'Pn': Pn, 'kw': kw, 'reject': reject}
    fail, key, coq, raised = eval_name(rp, rng)
    nm = 'bf %r lead=%s F=%d D=%d kw=%s' % (name, lead, F, D, kw)
    return Case(nm, coq=coq, pred_fail=fail, key=key, nontrivial=not reject, digest_=core.digest(name, Px, Pn, repr(sorted(kw.items()))),
                sample={'name': nm, 'Px': core.small(Px, 3)}, replay=rp, raised=raised,
                kind='name/reject' if reject else 'name/%d%s' % (spec[1] if spec[1] < 100 else 100, '+ban' if spec[2] else ''))


def coq_str(s):
    assert all(32 <= ord(c) < 127 and c != '"' for c in s), s
    return '"%s"%%string' % s


def eval_name(rp, rng=None):
    from pb_bss.extraction.beamformer_wrapper import get_bf_vector
    name, kw = rp['name'], rp['kw']
    Px, Pn = frozen(rp['Px'], rp['Pn'])
    xb, nb = Px.tobytes(), Pn.tobytes()

    def kwcopy():
        return {k: (dict(v) if isinstance(v, dict) else v) for k, v in kw.items()}
    if rp['reject']:
        try:
            get_bf_vector(name, Px, Pn)
        except (ValueError, AssertionError) as e:
            return None, None, 'check_bf_reject %s' % coq_str(name), type(e).__name__
        except Exception as e:
            return ('get_bf_vector(%r) raised %s instead of rejecting the name' % (name, type(e).__name__),
                    'bf:reject:%s' % type(e).__name__, None, None)
        # accepted by the implementation: then the model must accept it as well (disagreement otherwise)
        return None, None, 'check_bf_accept %s' % coq_str(name), None
    spec = tuple(rp['spec'])
    tag = name
    try:
        w = get_bf_vector(name, Px, Pn, **kwcopy())
    except Exception as e:
        return ('get_bf_vector(%r, target %s, noise %s, %s) raised %s: %s' % (name, Px.shape, Pn.shape, kw, type(e).__name__, str(e)[:120]),
                'bf:raises:%s:%s' % (tag.replace('+ban', ''), type(e).__name__), None, None)
    if Px.tobytes() != xb or Pn.tobytes() != nb:
        return 'caller array modified', 'bf:mutates', None, None
    coq = 'check_bf_name %s %d %d %s' % (coq_str(name), spec[0], spec[1], core.cbool(spec[2]))
    if w.shape != Px.shape[:-1]:
        return 'get_bf_vector(%r) returned shape %s for PSDs %s' % (name, w.shape, Px.shape), 'bf:shape:%s' % tag.replace('+ban', ''), coq, None
    try:
        ref = spelled(spec, Px, Pn, kwcopy())
    except Exception as e:
        return 'the spelled composition raised %s: %s' % (type(e).__name__, str(e)[:120]), 'bf:composition-raises:%s' % tag, coq, None
    if ref.shape != w.shape or not np.array_equal(np.isfinite(ref), np.isfinite(w)) or relerr(np.nan_to_num(w), np.nan_to_num(ref)) > 1e-12:
        return ('get_bf_vector(%r, %s) differs from the composition of primitives the name spells (rel dev %.3g)'
                % (name, kw, relerr(np.nan_to_num(w), np.nan_to_num(ref))), 'bf:composition:%s' % tag, coq, None)
    if not np.all(np.isfinite(w)):
        return 'non-finite beamforming vector for positive definite PSDs', 'bf:nonfinite:%s' % tag, coq, None
    # ban really applied / not applied
    if spec[2]:
        w0 = spelled((spec[0], spec[1], False), Px, Pn, kwcopy())
        g = np.einsum('...d,...d->...', w0.conj(), w) / np.maximum(np.einsum('...d,...d->...', w0.conj(), w0).real, 1e-300)
        if (np.abs(g.imag) > 1e-9 * np.abs(g)).any() or (g.real <= 0).any() or relerr(g[..., None] * w0, w) > 1e-9:
            return '"+ban" result is not a positive real multiple of the un-normalised vector', 'bf:ban:%s' % tag, coq, None
    # stack == stack of slices (explicit reference channel / names without a cross-bin decision)
    lead = Px.shape[:-3]
    auto = (spec[1] == 3 and 'ref_channel' not in kw) or (spec[1] == 5 and 'reference_channel' not in kw)
    if lead and not auto:
        for ix in pick_bins(np.random.default_rng(3), list(np.ndindex(*lead)), 2):
            ws = get_bf_vector(name, Px[ix], Pn[ix], **kwcopy())
            if relerr(outer(ws), outer(w[ix])) > 1e-9:
                return 'stacked call differs from the call on slice %s' % (ix,), 'bf:stack:%s' % tag, coq, None
    return None, None, coq, None


def outer(v):
    return v[..., :, None] * np.conj(v[..., None, :])


# ----------------------------------------------------------------------------- apply_beamforming_vector
def make_apply(rng, tier, idx):
    D = int(rng.integers(1, 9))
    Tn = int(rng.integers(1, 17))
    lead = tuple(int(v) for v in rng.integers(1, 5, int(rng.integers(0, 4))))
    w = crandn(rng, *lead, D)
    if rng.random() < 0.2:
        w = w.real.copy()
    x = crandn(rng, *lead, D, Tn) * 10.0 ** rng.integers(-2, 3)
    rp = {'fn': 'apply', 'w': w, 'x': x}
    fail, key, coq, raised = eval_apply(rp, rng)
    nm = 'apply lead=%s D=%d T=%d %s' % (lead, D, Tn, w.dtype)
    return Case(nm, coq=coq, pred_fail=fail, key=key, nontrivial=D >= 2, digest_=core.digest(w, x),
                sample={'name': nm, 'w': core.small(w, 3)}, replay=rp, raised=raised, kind='apply')


def eval_apply(rp, rng=None):
    from pb_bss.extraction.beamformer import apply_beamforming_vector
    w, x = frozen(rp['w'], rp['x'])
    wb, xb = w.tobytes(), x.tobytes()
    try:
        out = apply_beamforming_vector(w, x)
    except Exception as e:
        return 'apply_beamforming_vector raised %s: %s' % (type(e).__name__, str(e)[:120]), 'apply:raises', None, None
    if w.tobytes() != wb or x.tobytes() != xb:
        return 'caller array modified', 'apply:mutates', None, None
    lead, D, Tn = w.shape[:-1], w.shape[-1], x.shape[-1]
    ref = np.zeros(lead + (Tn,), complex)
    for ix in np.ndindex(*lead):
        ref[ix] = w[ix].conj() @ x[ix]
    if out.shape != ref.shape or relerr(out, ref) > 1e-12:
        return 'apply_beamforming_vector differs from w^H x per leading index', 'apply:inner', None, None
    parts = ['check_apply %d %d %s %s %s' % (D, Tn, core.clist(w[ix].astype(complex)), core.cmat(x[ix]), core.clist(out[ix]))
             for ix in pick_bins(rng, list(np.ndindex(*lead)), 2)]
    return None, None, 'allR [' + '; '.join(parts) + ']', None


# ----------------------------------------------------------------------------- phase_correction
def make_phase(rng, tier, idx):
    D = int(rng.integers(2, 9))
    F = int(rng.integers(1, 33 if tier == 'thorough' else 17))
    if rng.random() < 0.7:
        F = max(F, 3)
    nlead = int(rng.choice([0, 1, 1, 2, 2]))
    lead = tuple(int(v) for v in rng.integers(1, 4, nlead))
    w = crandn(rng, *lead, F, D) * 10.0 ** rng.integers(-2, 3)
    r = rng.random()
    if r < 0.2 and F > 2:
        w[..., int(rng.integers(0, F)), :] = 0          # a zero bin: angle(0) = 0
    elif r < 0.3:
        w = w.real + 0j                                   # real-valued content, complex dtype (the function works in place on a copy)
    rp = {'fn': 'phase', 'w': w, 'as_list': bool(rng.random() < 0.1)}
    fail, key, coq, raised = eval_phase(rp, rng)
    nm = 'phase lead=%s F=%d D=%d %s' % (lead, F, D, w.dtype)
    return Case(nm, coq=coq, pred_fail=fail, key=key, nontrivial=F >= 3, digest_=core.digest(w),
                sample={'name': nm, 'w': core.small(w, 3)}, replay=rp, raised=raised, kind='phase/lead%d' % nlead)


def eval_phase(rp, rng=None):
    from pb_bss.extraction.beamformer import phase_correction
    w, = frozen(rp['w'])
    wb = w.tobytes()
    cls = 'lead' if w.ndim > 2 else '2d'
    try:
        out = phase_correction(w.tolist() if rp.get('as_list') else w)
    except Exception as e:
        return 'phase_correction raised %s: %s' % (type(e).__name__, str(e)[:120]), 'phase:raises:%s' % cls, None, None
    if w.tobytes() != wb:
        return 'caller array modified', 'phase:mutates', None, None
    if out.shape != w.shape or not np.all(np.isfinite(out)):
        return 'result shape %s / non-finite' % (out.shape,), 'phase:shape', None, None
    wc = w.astype(complex)
    lead, F, D = w.shape[:-2], w.shape[-2], w.shape[-1]
    coq = None
    if F * D <= 160:
        coq = 'allR [' + '; '.join('check_phase %d %d %s %s' % (D, F, core.cmat(wc[ix]), core.cmat(out[ix]))
                                   for ix in pick_bins(rng, list(np.ndindex(*lead)), 2)) + ']'
    if np.abs(np.abs(out) - np.abs(wc)).max() > 1e-9 * max(np.abs(wc).max(), 1e-300):
        return 'phase_correction changed magnitudes', 'phase:magnitudes:%s' % cls, coq, None
    if F > 1:
        s = np.einsum('...fd,...fd->...f', out[..., 1:, :].conj(), out[..., :-1, :])
        bound = 1e-9 * np.linalg.norm(wc[..., 1:, :], axis=-1) * np.linalg.norm(wc[..., :-1, :], axis=-1) + 1e-300
        if (np.abs(s.imag) > bound).any() or (s.real < -bound).any():
            j = np.unravel_index(int(np.argmax(np.abs(s.imag) - bound)), s.shape)
            return ('consecutive bins are not phase-aligned: w_f^H w_{f-1} = %s at (leading index, f) = %s, shape %s'
                    % (s[j], j, w.shape), 'phase:aligned:%s' % cls, coq, None)
        want = np.abs(np.einsum('...fd,...fd->...f', wc[..., 1:, :].conj(), wc[..., :-1, :]))
        if (np.abs(s.real - want) > bound).any():
            return 'aligned inner product differs from |w_f^H w_{f-1}|', 'phase:aligned-value:%s' % cls, coq, None
    for ix in pick_bins(np.random.default_rng(11), list(np.ndindex(*lead)), 3) if lead else []:
        o1 = phase_correction(w[ix])
        if relerr(o1, out[ix]) > 1e-9:
            return ('phase_correction of a stack differs from phase_correction of slice %s (shape %s)' % (ix, w.shape),
                    'phase:stack:%s' % cls, coq, None)
    return None, None, coq, None


# ----------------------------------------------------------------------------- singular / zero bins
_SCOUNT = [0]


def make_singular(rng, tier, idx, real_diag=False):
    D = int(rng.integers(2, 9))
    F = int(rng.integers(2, 33 if tier == 'thorough' else 13))
    which = str(rng.choice(['souden', 'wmwf']))
    Pn = rand_hpd(rng, (F,), D, scale=1.0, max_cond=1e3).copy()
    Px = (rand_hpd(rng, (F,), D, scale=1.0, max_cond=1e3) if rng.random() < 0.5 else rank1_psd(rng, (F,), D, 1.0)[0]).copy()
    nsing = int(rng.integers(1, F + 1)) if rng.random() < 0.25 else int(rng.integers(1, max(2, F // 2 + 1)))
    bins = sorted(int(b) for b in rng.choice(F, nsing, replace=False))
    cls = str(rng.choice(['zero', 'zero', 'zerorow', 'rankdef', 'rankdef']))
    if real_diag:
        cls = ['zero', 'zerorow'][idx % 2]
    # stratum: EVERY bin rank deficient (low-rank noise estimate from few frames) with the automatic reference channel -
    # the filter then lies in the null space of the noise PSD and has no noise output (fix 1623b5d)
    all_def = (not real_diag) and _SCOUNT[0] % 4 == 2
    if all_def:
        cls, bins, which = 'rankdef', list(range(F)), ['wmwf', 'souden'][(_SCOUNT[0] // 4) % 2]
    for f in bins:
        if cls == 'zero':
            m = int(rng.integers(0, 3))
            if m != 1:
                Pn[f] = 0
            if m != 0:
                Px[f] = 0
        elif cls == 'zerorow':
            k = int(rng.integers(0, D))
            Pn[f][:, k] = 0
            Pn[f][k, :] = 0
        else:
            r = int(rng.integers(1, D))
            if all_def:
                r = int(rng.integers(1, max(2, D // 2)))
            if rng.random() < 0.5 and not all_def:      # exactly singular: Gaussian-integer factors
                a = rng.integers(-3, 4, (D, r)) + 1j * rng.integers(-3, 4, (D, r))
            else:
                a = crandn(rng, D, r)
            Pn[f] = a @ herm(a)
    if cls in ('zero', 'zerorow') and (_SCOUNT[0] % 4 == 1 or real_diag):
        # spatially white (uncorrelated) noise model: a REAL diagonal noise PSD, float64 typed, with silent bins
        Pn = np.stack([np.diag(rng.uniform(0.5, 2.0, D)) for _ in range(F)])
        for f in bins:
            if cls == 'zero':
                Pn[f] = 0
            else:
                k = int(rng.integers(0, D))
                Pn[f][k, k] = 0
    auto = bool(rng.random() < 0.3) or all_def
    _SCOUNT[0] += 1
    single = cls in ('zero', 'zerorow') and _SCOUNT[0] % 3 == 0
    if single:
        # single-precision PSD stacks (complex64 STFTs are common): only the finiteness / shape / neighbour clauses
        Px, Pn = Px.astype(np.complex64), Pn.astype(np.complex64)
    rp = {'fn': 'singular', 'which': which, 'Px': Px, 'Pn': Pn, 'bins': bins, 'cls': cls,
          'ref': None if auto else int(rng.integers(0, D)),
          'mu': float(rng.choice([0.5, 1.0, 7.0, 100.0])) if rng.random() < 0.7 else None}
    fail, key, coq, raised = eval_singular(rp, rng)
    nm = 'singular %s %s%s bins=%s F=%d D=%d ref=%s mu=%s' % (which, cls, '/complex64' if single else '', bins, F, D, rp['ref'], rp['mu'])
    return Case(nm, coq=coq, pred_fail=fail, key=key, nontrivial=True, digest_=core.digest(Px, Pn, which, rp['ref'], rp['mu']),
                sample={'name': nm, 'Pn': core.small(Pn, 3)}, replay=rp, raised=raised, kind='singular/%s/%s' % (which, cls))


def eval_singular(rp, rng=None):
    from pb_bss.extraction.beamformer import get_mvdr_vector_souden, get_wmwf_vector
    from pb_bss.math.solve import stable_solve
    which, bins, cls, ref, mu = rp['which'], list(rp['bins']), rp['cls'], rp['ref'], rp['mu']
    Px, Pn = frozen(rp['Px'], rp['Pn'])
    F, D = Px.shape[0], Px.shape[-1]

    def call(A, B):
        if which == 'souden':
            return get_mvdr_vector_souden(A, B, ref_channel=ref)
        if mu is None:
            return get_wmwf_vector(A, B, reference_channel=ref)
        return get_wmwf_vector(A, B, reference_channel=ref, distortion_weight=mu)
    tag = 'singular:%s:%s' % (which, cls)
    try:
        w = call(Px, Pn)
    except Exception as e:
        # the filters of the explicit reference channels tell an overflowing solve (known finding, needs a rank-revealing
        # solve) from a failure of the automatic channel selection on perfectly bounded filters (fix 1623b5d)
        size = 'overflowing-filter'
        if ref is None:
            try:
                ws = [(get_mvdr_vector_souden(Px, Pn, ref_channel=r) if which == 'souden' else
                       get_wmwf_vector(Px, Pn, reference_channel=r, **({} if mu is None else {'distortion_weight': mu})))
                      for r in range(D)]
                if all(np.all(np.isfinite(x)) and np.abs(x).max() < 1e100 for x in ws):
                    size = 'bounded-filter'
            except Exception:
                pass
        return ('%s raised %s on a stack with %s bins %s (%s): %s' % (which, type(e).__name__, cls, bins, size, str(e)[:100]),
                '%s:raises:%s:%s' % (tag, type(e).__name__, size), None, None)
    if w.shape != (F, D):
        return 'result shape %s' % (w.shape,), '%s:shape' % tag, None, None
    if not np.all(np.isfinite(w)):
        bad = sorted(set(int(f) for f in np.argwhere(~np.isfinite(w))[:, 0]))
        return ('%s returned non-finite entries in bins %s for a stack whose bins %s have a %s noise/target PSD'
                % (which, bad, bins, {'zero': 'zero', 'zerorow': 'singular (zero row and column)', 'rankdef': 'rank-deficient'}[cls]),
                '%s:nonfinite' % tag, None, None)
    reg = [f for f in range(F) if f not in bins]
    coq_parts = []
    single = Px.dtype == np.complex64
    if ref is not None and reg:
        wr = call(Px[reg], Pn[reg])
        if relerr(wr, w[reg]) > (1e-3 if single else 1e-9):
            return 'regular bins change when singular neighbours are present (rel dev %.3g)' % relerr(wr, w[reg]), '%s:neighbours' % tag, None, None
    if single:
        return None, None, None, None
    # composition step on regular and on all-zero bins, given the solve result the code obtains
    phi = stable_solve(Pn, Px)
    r = ref
    if r is not None:
        sel = pick_bins(rng, reg, 2) + [f for f in bins if cls == 'zero'][:1]
        for f in sel:
            if not np.all(np.isfinite(phi[f])):
                continue
            if which == 'souden':
                coq_parts.append('check_souden_comp %d %s %s %d %s' % (D, core.cmat(phi[f]), core.fhex(TINY), r, core.clist(w[f])))
            else:
                coq_parts.append('check_wmwf_comp %d %s %s %d %s' % (D, core.cmat(phi[f]), core.fhex(1.0 if mu is None else mu), r, core.clist(w[f])))
    coq = ('allR [' + '; '.join(coq_parts) + ']') if coq_parts else None
    return None, None, coq, None


# ----------------------------------------------------------------------------- driver
def name_plan(rng, tier):
    """(name, spec, reject) for every accepted name (derived from the code) and the rejected samples"""
    cores = derive_core_names()
    plan = []
    for c in cores:
        code = CORE_CODE.get(c)
        for ban in (False, True):
            nm = c + ('+ban' if ban else '')
            # a core the table does not know is sent through as 'rejected by the model': the check disagrees
            plan.append((nm, (code[0], code[1], ban), False) if code else (nm, None, True))
    for n in sorted(set(int(v) for v in rng.integers(0, 8, 4)) | {0}):
        plan.append(('ch%d' % n, (0, 100 + n, False), False))
        plan.append(('ch%d+ban' % n, (0, 100 + n, True), False))
    plan.append(('ch007', (0, 107, False), False))
    for nm in REJECTED:
        plan.append((nm, None, True))
    return cores, plan


def table_case(cores):
    parts = ['check_table_size 84'] + ['check_table_has %s' % coq_str(c + s) for c in cores for s in ('', '+ban')]
    parts += ['check_table_has %s' % coq_str('ch%d%s' % (n, s)) for n in (0, 7, 29) for s in ('', '+ban')]
    ok = len(cores) == 12 and set(cores) == set(CORE_CODE)
    return Case('name table derived from get_bf_vector source: %s' % cores, coq='allR [' + '; '.join(parts) + ']',
                pred_fail=None, key=None if ok else 'bf:table', nontrivial=True, digest_=core.digest(cores),
                sample={'name': 'table', 'cores': cores}, replay={'fn': 'table'}, kind='name/table')


def cases(rng, tier):
    rounds = 1 if tier == 'quick' else 8
    out = []
    for rd in range(rounds):
        cores, plan = name_plan(rng, tier)
        if rd == 0:
            out.append(table_case(cores))
        for nm, spec, rej in plan:
            if rd > 0 and rej:
                continue
            out.append(make_name(rng, tier, nm, spec, rej))
    n = 12 if tier == 'quick' else 120
    for i in range(n):
        out.append(make_apply(rng, tier, i))
    for i in range(2 * n):
        out.append(make_phase(rng, tier, i))
    for i in range(2 * n):
        out.append(make_singular(rng, tier, i))
    for i in range(4 if tier == 'quick' else 16):
        out.append(make_singular(rng, tier, i, real_diag=True))
    return out


def search(rng, tier, hints):
    out = []
    cores, plan = name_plan(rng, tier)
    for k in range(6 if tier == 'quick' else 30):
        for nm, spec, rej in plan:
            c = make_name(rng, 'thorough', nm, spec, rej)
            if c.pred_fail:
                return [c]
    for i in range(200 if tier == 'quick' else 1500):
        c = [make_apply, make_phase, make_singular][i % 3](rng, 'thorough', i)
        if c.pred_fail:
            return [c]
    return out


def replay(payload):
    rp = payload['replay']
    fn = rp['fn']
    if fn == 'table':
        cores = derive_core_names()
        return None if set(cores) == set(CORE_CODE) else 'accepted core names %s differ from the model table' % cores
    return {'name': eval_name, 'apply': eval_apply, 'phase': eval_phase, 'singular': eval_singular}[fn](rp)[0]
