"""C09 -- fitted parameters stay inside their documented domain, free of NaN/Inf, for degenerate data too.
Every case fits a trainer of the CURRENT /repo (5 single-distribution trainers, 7 mixture trainers, all options of
mm.sample_options plus the constructor options max_concentration of the Watson / Bingham trainers, 1..4 iterations) on
a regular or a degenerate stream (zero / repeated / collinear frames, N <= D, scales 1e-150..1e150, one-hot starts),
then (a) evaluates the property's domain predicates on the fitted fields in independent NumPy and (b) hands the
arguments of the LAST M-step (recorded from outside) together with the fitted fields to Coq, where Run/C09.v re-computes
the domain-deciding post-processing with the model on PrimFloat and evaluates the oracle contracts."""
import numpy as np
from harness import core, mm
from harness.core import Case

PID = 'C09'
REQUIRES = ['Run.C09']
SHARD = 40
RULE = ('fit of ComplexAngularCentralGaussian/ComplexWatson/VonMisesFisher/Gaussian/ComplexBingham trainers and of the 7 '
        'mixture trainers x tying/saliency/mask/eps/floor/covariance options x max_concentration x 1..4 iterations on regular '
        'and degenerate streams (zero, repeated, collinear frames, N<=D, scales 1e+-150, one-hot starts); non-trivial: the fit '
        'returned a model, D>=2, and (mixtures) K>=2 with weights not all equal; distinct by SHA-1 of data, start, options')
NOT_PROVED = ('NaN/Inf freedom in binary64 (explored by the predicates and on the PrimFloat instance, not proved); positive '
              'definiteness of the Gaussian covariance is a spanning condition on the data (theorem C09_gaussian_cov_pd_partial), '
              'the implementation raises from its Cholesky factorisation otherwise; oracle contracts (eigh, Watson spline, '
              'least_squares) are evaluated per case, not proved')
ASSUMPTIONS = ['tiny = np.finfo(dtype).tiny', 'eigh contract: A u = r u, U^H U = I (evaluated per case inside Coq)',
               'Watson spline contract: values in [0, max_concentration] on its knot range (evaluated on a grid per trainer)',
               'least_squares contract: result within its bounds (evaluated per case inside Coq)',
               'weights are compared with 1 only when the recorded E-step columns are normalised (C01) and every observation has an active source']

EXPLICIT = (AssertionError, ValueError, NotImplementedError, np.linalg.LinAlgError)
K_EIG = 'cacg:eigenvalue-max-not-one:zero-scatter'
K_TRACE = 'cacg:trace-not-one:zero-scatter'
K_BING = 'bingham:top-eigenvalue-positive:finite-max-concentration'
CANDIDATE_KNOWN = (K_EIG, K_TRACE, K_BING)
NORMS = {'eigenvalue': 0, 'trace': 1, False: 2}
CTYPES = {'full': 0, 'diagonal': 1, 'spherical': 2}


# ----------------------------------------------------------------------------- small helpers
def tiny_of(a):
    return float(np.finfo(np.asarray(a).real.dtype).tiny)


def fields(obj, path=''):
    """(path, value) of every leaf field of a fitted (nested) dataclass model"""
    for k in obj.__dataclass_fields__:
        v = getattr(obj, k)
        if hasattr(v, '__dataclass_fields__'):
            yield from fields(v, path + k + '.')
        else:
            yield path + k, v


def nonfinite_field(model):
    for p, v in fields(model):
        if v is None or isinstance(v, (tuple, list, str, bool)):
            continue
        a = np.asarray(v)
        if a.dtype.kind in 'fc' and not np.all(np.isfinite(a)):
            return p
    return None


def pick(fails):
    """first failure that is not one of the candidate known findings, else the first one"""
    for f in fails:
        if f[1] not in CANDIDATE_KNOWN:
            return f
    return fails[0] if fails else (None, None)


def unitary_dev(U):
    D = U.shape[-1]
    eye = np.eye(D)
    a = np.abs(np.swapaxes(U.conj(), -1, -2) @ U - eye).max()
    b = np.abs(U @ np.swapaxes(U.conj(), -1, -2) - eye).max()
    return float(max(a, b))


def unit(y, style):
    n = np.linalg.norm(y, axis=-1, keepdims=True)
    t = tiny_of(y)
    return y / (np.where(n == 0, t, n) if style == 'where' else np.maximum(n, t))


class Recorder:
    """record the result of scipy's least_squares as called by complex_bingham.py (from outside, restored afterwards)"""
    def __init__(self):
        self.calls = []

    def __enter__(self):
        import pb_bss.distribution.complex_bingham as cb
        self.cb, self.orig = cb, cb.least_squares

        def wrapped(*a, **kw):
            res = self.orig(*a, **kw)
            if not mm.IN_WARMUP[0]:
                self.calls.append({'x': np.array(res.x, dtype=float), 'bounds': kw.get('bounds')})
            return res
        cb.least_squares = wrapped
        return self

    def __exit__(self, *exc):
        self.cb.least_squares = self.orig
        return False


# ----------------------------------------------------------------------------- predicates (independent NumPy)
def below_tiny(scat, mass, norm):
    """the degenerate branch of from_covariance (theorems C09_cacg_eig_degenerate / hypothesis of C09_cacg_trace_normalise_unit):
    the covariance D * scat / max(mass, tiny) handed to it has largest eigenvalue ('eigenvalue') / trace ('trace') below tiny,
    i.e. it is exactly zero or subnormal"""
    t = tiny_of(scat)
    D = scat.shape[-1]
    cov = D * scat / np.maximum(mass, t)[..., None, None]
    if norm == 'trace':
        return np.einsum('...dd', cov).real < t
    if norm == 'eigenvalue':
        return np.linalg.eigvalsh((cov + np.swapaxes(cov.conj(), -1, -2)) / 2).max(-1) < t
    return np.zeros(scat.shape[:-2], bool)


def pred_cacg(tag, U, lam, norm, floor, scat_zero, fails):
    """U (..., D, D), lam (..., D); scat_zero (...) bool: the class covariance handed to from_covariance is zero / below tiny"""
    D = lam.shape[-1]
    if not (np.all(np.isfinite(U)) and np.all(np.isfinite(lam))):
        fails.append(('%s: cACG eigenvectors / eigenvalues contain NaN/Inf' % tag, 'cacg:nonfinite:%s' % tag))
        return
    dev = unitary_dev(U)
    if dev > 1e-9:
        fails.append(('%s: cACG eigenvectors not unitary (deviation %.3g > 1e-9)' % tag, 'cacg:not-unitary:%s' % tag))
    t = tiny_of(lam)
    if lam.min() <= 0:
        fails.append(('%s: cACG eigenvalue %.3g <= 0: covariance not positive definite' % (tag, lam.min()), 'cacg:not-pd:%s' % tag))
    if norm == 'eigenvalue':
        if lam.min() < floor * (1 - 1e-12) or lam.max() > 1 + 1e-12:
            fails.append(('%s: cACG eigenvalues outside [floor, 1]: min %.6g max %.6g floor %g' % (tag, lam.min(), lam.max(), floor),
                          'cacg:eig-range:%s' % tag))
        mx = lam.max(-1)
        bad = np.abs(mx - 1) > 1e-12
        # the listed finding is exactly: zero scatter -> every eigenvalue equals the floor; anything else is a new violation
        stated = scat_zero & (mx < 1)        # C09_cacg_eig_degenerate: max(ev/tiny, floor) < 1 (all equal to the floor for a zero matrix)
        if np.any(bad & ~stated):
            fails.append(('%s: largest cACG eigenvalue is %.17g, not 1' % (tag, mx[bad & ~stated][0]), 'cacg:eig-max:%s' % tag))
        scat_zero = stated
        if np.any(bad & scat_zero):
            fails.append(('%s covariance_norm=eigenvalue: a class whose weighted scatter matrix is exactly zero (all of its frames are '
                          'zero) gets eigenvalues max(ev/tiny, floor), all equal to the floor %g for the zero matrix: maximum %.3g instead of 1'
                          % (tag, floor, mx[bad & scat_zero][0]), K_EIG))
    else:
        mx = lam.max(-1, keepdims=True)
        lo = np.maximum(mx * floor, t)
        if np.any(lam < lo * (1 - 1e-12)):
            fails.append(('%s: cACG eigenvalue below max(max*floor, tiny)' % tag, 'cacg:eig-floor:%s' % tag))
        if norm == 'trace':
            tr = lam.sum(-1)
            hi = 1 + D * lo[..., 0]
            bad = (tr < 1 - 1e-9) | (tr > hi + 1e-9)
            scat_zero = scat_zero & (tr < 1)     # the listed finding: trace below tiny -> eigenvalues max(ev/tiny, tiny), sum < 1
            if np.any(bad & ~scat_zero):
                fails.append(('%s: trace-normalised cACG eigenvalues sum to %.12g, not 1 up to flooring' % (tag, tr[bad & ~scat_zero][0]),
                              'cacg:trace:%s' % tag))
            if np.any(bad & scat_zero):
                fails.append(('%s covariance_norm=trace: a class whose weighted scatter matrix is exactly zero (all of its frames are zero) or, one '
                              'iteration later, subnormal (quadratic forms 1/tiny) has trace below tiny: eigenvalues max(ev/tiny, tiny), all equal to tiny '
                              'for the zero matrix: trace %.3g instead of 1' % (tag, tr[bad & scat_zero][0]), K_TRACE))
    # covariance U diag(lam) U^H: Hermitian; positive definite where the reconstruction can resolve it
    C = np.einsum('...wx,...x,...zx->...wz', U, lam, U.conj())
    sc = max(float(np.abs(C).max()), t)
    if np.abs(C - np.swapaxes(C.conj(), -1, -2)).max() > 1e-12 * sc:
        fails.append(('%s: cACG covariance not Hermitian' % tag, 'cacg:not-hermitian:%s' % tag))
    ok = lam.min(-1) > 1e-12 * lam.max(-1)
    if np.any(ok):
        ev = np.linalg.eigvalsh(C[ok])
        if ev.min() <= 0:
            fails.append(('%s: cACG covariance has eigenvalue %.3g <= 0' % (tag, ev.min()), 'cacg:cov-not-pd:%s' % tag))


def pred_watson(tag, mode, conc, maxc, scat_nonzero, fails):
    if not (np.all(np.isfinite(mode)) and np.all(np.isfinite(conc))):
        fails.append(('%s: Watson mode / concentration contain NaN/Inf' % tag, 'watson:nonfinite:%s' % tag))
        return
    n = np.linalg.norm(mode, axis=-1)
    if np.any(np.abs(n - 1)[scat_nonzero] > 1e-9):
        fails.append(('%s: Watson mode norm %.12g, not 1, for a class with non-zero scatter' % (tag, n[scat_nonzero][np.argmax(np.abs(n - 1)[scat_nonzero])]),
                      'watson:mode-norm:%s' % tag))
    if conc.min() < 0 or conc.max() > maxc * (1 + 1e-12):
        fails.append(('%s: Watson concentration outside [0, %g]: min %.6g max %.6g' % (tag, maxc, conc.min(), conc.max()), 'watson:conc:%s' % tag))


def pred_vmf(tag, mean, conc, kmin, kmax, res_norm, fails):
    if not (np.all(np.isfinite(mean)) and np.all(np.isfinite(conc))):
        fails.append(('%s: vMF mean / concentration contain NaN/Inf (concentration %s)' % (tag, np.asarray(conc).ravel()[:4]), 'vmf:nonfinite:%s' % tag))
        return
    n = np.linalg.norm(mean, axis=-1)
    nz = res_norm > 0
    if np.any(np.abs(n - 1)[nz] > 1e-9):
        sub = nz & (res_norm < tiny_of(mean))
        key = 'vmf:mean-norm:subnormal-resultant' if np.any(np.abs(n - 1)[sub] > 1e-9) and not np.any(np.abs(n - 1)[nz & ~sub] > 1e-9) else 'vmf:mean-norm:%s' % tag
        fails.append(('%s: vMF mean norm %.12g, not 1, for a class with non-zero resultant' % (tag, n[nz][np.argmax(np.abs(n - 1)[nz])]), key))
    if kmin <= kmax and (conc.min() < kmin or conc.max() > kmax):
        fails.append(('%s: vMF concentration outside [%g, %g]: min %.6g max %.6g' % (tag, kmin, kmax, conc.min(), conc.max()), 'vmf:conc:%s' % tag))


def pred_gauss(tag, g, ctype, fails):
    mean, cov = np.asarray(g.mean), np.asarray(g.covariance)
    if not (np.all(np.isfinite(mean)) and np.all(np.isfinite(cov))):
        fails.append(('%s: Gaussian mean / covariance contain NaN/Inf' % tag, 'gauss:nonfinite:%s' % tag))
        return
    if ctype == 'full':
        sc = np.abs(cov).max((-1, -2), keepdims=True)
        if np.any(np.abs(cov - np.swapaxes(cov, -1, -2)) > 1e-12 * sc):
            fails.append(('%s: Gaussian covariance not symmetric (up to rounding)' % tag, 'gauss:not-symmetric:%s' % tag))
        ev = np.linalg.eigvalsh((cov + np.swapaxes(cov, -1, -2)) / 2)
        if np.any(ev.min(-1) <= -1e-12 * np.abs(ev).max(-1)):
            fails.append(('%s: Gaussian covariance has a negative eigenvalue %.3g' % (tag, ev.min()), 'gauss:not-pd:%s' % tag))
    elif cov.min() <= 0:
        fails.append(('%s: Gaussian %s variance %.3g <= 0' % (tag, ctype, cov.min()), 'gauss:not-pd:%s' % tag))


def pred_bingham(tag, U, lam, maxc, eps, fails):
    if not (np.all(np.isfinite(U)) and np.all(np.isfinite(lam))):
        fails.append(('%s: Bingham eigenvectors / eigenvalues contain NaN/Inf' % tag, 'bingham:nonfinite:%s' % tag))
        return
    if unitary_dev(U) > 1e-9:
        fails.append(('%s: Bingham eigenvectors not unitary' % tag, 'bingham:not-unitary:%s' % tag))
    tol = 1e-12 * max(1.0, float(np.abs(lam).max()))
    if np.isfinite(maxc) and lam.min() < -maxc - tol:
        fails.append(('%s: Bingham eigenvalue %.12g below -max_concentration = %g' % (tag, lam.min(), -maxc), 'bingham:below-min:%s' % tag))
    mx = lam.max(-1)
    D = lam.shape[-1]
    if np.any(mx > tol):
        # the listed finding is exactly: finite bound, top lifted by at most (D-1)*eps (theorem C09_bingham_domain_finite)
        if np.isfinite(maxc) and mx.max() <= (D - 1) * eps * (1 + 1e-6) + tol:
            fails.append(('%s max_concentration=%g: the duplicate-spreading step (anchored at the smallest eigenvalue) lifts the top Bingham '
                          'eigenvalue to %.3g > 0 (eigenvalues must be <= 0 with maximum 0)' % (tag, maxc, mx.max()), K_BING))
        else:
            fails.append(('%s: Bingham eigenvalue %.3g > 0' % (tag, mx.max()), 'bingham:positive:%s' % tag))
    if np.any(mx < -tol):
        fails.append(('%s: largest Bingham eigenvalue %.3g, not 0' % (tag, mx.min()), 'bingham:max-not-zero:%s' % tag))


def documented_weight_shape(name, lead, K, N, wca):
    sh = (*lead, K, N)
    nd = len(sh)
    if name in mm.INTEGRATION:
        axes = tuple(a % nd for a in wca)
        if (nd - 2) in axes:
            return ()
        return tuple(n for i, n in enumerate(sh) if i not in axes)
    if isinstance(wca, (int, np.integer)):
        if wca % nd == nd - 2:
            return (K, 1)
        axes = (wca % nd,)
    else:
        axes = tuple(a % nd for a in wca)
    return tuple(1 if i in axes else n for i, n in enumerate(sh))


def pred_weights(name, model, lead, K, N, wca, eps_aff, aff, has_dead_column, fails):
    w = np.asarray(model.weight, dtype=float)
    want = documented_weight_shape(name, lead, K, N, wca)
    if tuple(w.shape) != tuple(want):
        fails.append(('%s: weight has shape %s, documented %s for weight_constant_axis=%s' % (name, w.shape, want, wca), 'weight:shape:%s' % name))
        return None
    if not np.all(np.isfinite(w)):
        fails.append(('%s: weights contain NaN/Inf' % name, 'weight:nonfinite:%s' % name))
        return None
    if w.size and w.min() < 0:
        fails.append(('%s: negative weight %.3g' % (name, w.min()), 'weight:negative:%s' % name))
    wfull = mm.stored_weight(name, model, (*lead, K, N))        # broadcast = constant along the tied axes
    s = wfull.sum(-2)
    tol = K * eps_aff + 1e-9
    cols = aff.sum(-2)
    normalised = bool(np.all(np.abs(cols - 1) <= tol)) and not has_dead_column
    if np.any(s > 1 + tol) or (normalised and np.any(np.abs(s - 1) > tol)):
        fails.append(('%s: weights sum to %.12g over classes (allowed deviation %.3g)' % (name, s.ravel()[np.argmax(np.abs(s - 1))], tol),
                      'weight:sum:%s' % name))
    return wfull


# ----------------------------------------------------------------------------- Coq expressions
def coq_weights(rng, name, lead, K, N, wca, aff, sal, wfull, wshape):
    sh = (*lead, K, N)
    nd = len(sh)
    ca = nd - 2
    out = []
    if name in mm.INTEGRATION:
        axes = sorted(set(a % nd for a in wca))
        out.append('check_w_shape true false %s %s %s' % (core.nlist(sh), core.nlist(axes), core.nlist(wshape)))
        if ca in axes:
            out.append('check_w_uniform %d %s' % (K, core.flist([float(wfull.ravel()[0])] * K)))
            return out
    else:
        if isinstance(wca, (int, np.integer)):
            is_class = (wca % nd == ca)
            axes = [wca % nd]
        else:
            is_class, axes = False, sorted(set(a % nd for a in wca))
        out.append('check_w_shape false %s %s %s %s' % (core.cbool(is_class), core.nlist(sh), core.nlist(axes), core.nlist(wshape)))
        if is_class:
            out.append('check_w_uniform %d %s' % (K, core.flist(wfull[(0,) * len(lead)][:, 0])))
            return out
    base = [int(rng.integers(0, n)) for n in sh]
    cells = list(np.ndindex(*[sh[a] for a in axes]))
    if len(cells) * K > 600:
        return out

    def idx(cell, k):
        ix = list(base)
        for a, c in zip(axes, cell):
            ix[a] = c
        ix[ca] = k
        return tuple(ix)
    a = [[float(aff[idx(c, k)]) for c in cells] for k in range(K)]
    impl = [float(wfull[idx(cells[0], k)]) for k in range(K)]
    if sal is None:
        out.append('check_w_mean %d %d %s %s' % (K - 1, len(cells), core.fmat(a), core.flist(impl)))
    else:
        s = []
        for c in cells:
            ix = idx(c, 0)
            s.append(float(sal[ix[:ca] + ix[ca + 1:]]))
        fn = 'check_w_int %d %d %s %s %s' if name in mm.INTEGRATION else 'check_w_sal %d %d %s %s ' + core.fhex(1e-10) + ' %s'
        out.append(fn % (K - 1, len(cells), core.fmat(a), core.flist(s), core.flist(impl)))
    return out


def coq_cacg(y, s, q, U, lam, herm, unit_where, norm, floor):
    N, D = y.shape
    return 'check_cacg %d %d %s %s %s %s %d %s %s %s %s %s' % (
        D - 1, N, core.fhex(tiny_of(y)), core.fhex(floor), core.cbool(herm), core.cbool(unit_where), NORMS[norm],
        core.cmat(y), core.flist(s), core.flist(q), core.cmat(U), core.flist(lam))


def coq_vmf(y, s, mean, kappa, kmin, kmax):
    N, D = y.shape
    return 'check_vmf %d %d %s %s %s %s %s %s %s' % (D, N, core.fhex(tiny_of(y)), core.fhex(kmin), core.fhex(kmax),
                                                   core.fmat(y), core.flist(s), core.flist(mean), core.fhex(kappa))


def coq_gauss(y, s, g_mean, g_cov, ctype):
    N, D = y.shape
    cov = np.asarray(g_cov, dtype=float).ravel()
    return 'check_gauss %d %d %d %s %s %s %s %s' % (CTYPES[ctype], D, N, core.fhex(tiny_of(y)), core.fmat(y), core.flist(s),
                                                 core.flist(g_mean), core.flist(cov))


def coq_watson(y, s, mode):
    N, D = y.shape
    return 'check_watson %d %d %s %s %s %s' % (D - 1, N, core.fhex(tiny_of(y)), core.cmat(y), core.flist(s), core.clist(mode))


def coq_bingham(call, lam, maxc, eps):
    x = call['x']
    return 'check_bingham %s %d %s %s %s %s' % (core.cbool(np.isfinite(maxc)), len(x), core.fhex(maxc), core.fhex(eps),
                                                core.flist(x), core.flist(np.sort(lam)))


def spline_contract(trainer, fails, tag):
    """ratio_inv contract of the Watson trainer: the fitted spline with its fill values maps everything into [0, max]"""
    x = np.concatenate([np.linspace(-0.05, 1.05, 1500), 1 - np.logspace(-12, -1, 200), 1 / trainer.dimension + np.logspace(-12, -2, 200)])
    v = trainer.hypergeometric_ratio_inverse(x)
    if not np.all(np.isfinite(v)) or v.min() < 0 or v.max() > trainer.max_concentration * (1 + 1e-12):
        fails.append(('%s: Watson spline leaves [0, max_concentration] on a grid of 1900 points: min %.6g max %.6g'
                      % (tag, np.nanmin(v), np.nanmax(v)), 'watson:spline-contract'))


# ----------------------------------------------------------------------------- degenerate stream (as in c01.py)
def degenerate(rng, name, data, mode):
    key = 'observation' if name in mm.INTEGRATION else 'y'
    y = data[key].copy()
    N = y.shape[-2]
    if mode == 'zero':
        y[..., :max(1, N // 4), :] = 0
    elif mode == 'allzero':
        y[...] = 0
    elif mode == 'repeat':
        y[..., 1::2, :] = y[..., 0:1, :]
    elif mode == 'identical':
        y[...] = y[..., :1, :]
    elif mode == 'rank1':
        y[...] = y[..., :1, :] * (1 + np.arange(N))[:, None]
    elif mode == 'big':
        y *= 1e150 / np.abs(y).max()
    elif mode == 'small':
        y *= 1e-150 / np.abs(y)[np.abs(y) > 0].min()
    elif mode == 'mixedscale':
        y = y / np.abs(y).max(-1, keepdims=True)
        y = y * 10.0 ** rng.integers(-140, 150, size=y.shape[:-1] + (1,))
    data = dict(data)
    data[key] = y
    return data


DEG_MODES = ['zero', 'zero', 'repeat', 'identical', 'rank1', 'big', 'small', 'mixedscale', 'fewframes', 'fewframes', 'allzero']


# ----------------------------------------------------------------------------- mixture models
def trainer_options(rng, name, force_finite=False):
    """constructor options (part of 'all trainer options'): max_concentration of the Watson / Bingham trainers"""
    if name == 'cwmm':
        return {'max_concentration': float(rng.choice([500, 500, 100, 20]))}
    if name == 'cbmm':
        if force_finite:
            return {'max_concentration': float(rng.choice([500, 50, 5]))}
        return {'max_concentration': float(rng.choice([np.inf, np.inf, 500, 50, 5]))}
    return {}


_NCL = [0]


def case_model(rng, tier, i, degen=False, name=None, force_finite=False, force_nc=False):
    name = name or mm.MODELS[int(rng.integers(0, len(mm.MODELS)))]
    K = int(rng.integers(1, 5)) if name != 'cacgmm' else int(rng.integers(2, 5))
    D = int(rng.integers(2, 6))
    if name == 'cbmm':
        D = min(D, 5 if force_finite else 4)
    mode = None
    if degen:
        mode = str(rng.choice(DEG_MODES))
        N = int(rng.integers(1, D + 1)) if mode == 'fewframes' else int(rng.integers(2, 13))
    else:
        N = K * (D + 2) + int(rng.integers(2, 14))       # every class can keep more than D+1 frames
    if name in mm.INTEGRATION:
        lead = (int(rng.integers(1, 4)),)
    else:
        lead = tuple(int(v) for v in rng.integers(1, 4, int(rng.integers(0, 3))))
    if name == 'cbmm':
        lead = lead[:1]
    data = mm.make_data(rng, name, K, D, N, lead, separation=float(rng.choice([0.5, 2.0, 8.0])))
    if degen:
        data = degenerate(rng, name, data, mode)
    style = 'onehot' if (degen and rng.random() < 0.5 and N >= K) else ['positive', 'dirichlet'][int(rng.integers(0, 2))]
    init = mm.make_init(rng, K, N, lead, style)
    # GreedyPermutationAlignment asserts an odd number of frequency bins ('Sure? Usually F is odd.'): only offer it then
    opts = mm.sample_options(rng, name, K, N, lead, with_aligner=(rng.random() < 0.15 and len(lead) == 1 and lead[0] % 2 == 1))
    iters = int(rng.integers(1, 5))
    topts = trainer_options(rng, name, force_finite)
    _NCL[0] += 1
    use_nc = (not degen) and (_NCL[0] % 4 == 0 or force_nc) and 'source_activity_mask' not in opts
    if use_nc:
        # random start drawn by the trainer itself (num_classes=K); every second one stopped after the first M-step
        style = 'num_classes'
        if _NCL[0] % 8 == 0 or force_nc:
            iters = 1
    rp = {'fn': 'model', 'model': name, 'data': {k: v for k, v in data.items() if k != 'labels'}, 'init': init, 'num_classes': bool(use_nc),
          'opts': {k: v for k, v in opts.items() if k != 'inline_permutation_aligner'},
          'aligner': 'inline_permutation_aligner' in opts, 'iterations': iters, 'trainer_opts': topts,
          'np_seed': int(rng.integers(0, 2 ** 31)), 'degenerate': mode, 'pick_seed': int(rng.integers(0, 2 ** 31))}
    label = 'fit %s K=%d D=%d N=%d lead=%s iters=%d init=%s degenerate=%s trainer=%s opts=%s' % (
        name, K, D, N, lead, iters, style, mode, topts, mm.describe_options(opts))
    fail, key, coq, raised, nt = eval_model(rp)
    return Case(label, coq=coq, pred_fail=fail, key=key, nontrivial=nt,
                digest_=core.digest(label, *[v for v in rp['data'].values()], init),
                sample={'name': label}, replay=rp, raised=raised, kind=('degenerate/' if degen else 'model/') + name)


def make_trainer(name, topts):
    cls = mm.trainer_cls(name)
    return cls(**topts) if topts else cls()


def eval_model(rp):
    rng = np.random.default_rng(rp.get('pick_seed', 0))
    name = rp['model']
    data = {k: np.array(v) for k, v in rp['data'].items()}
    for v in data.values():
        v.setflags(write=False)
    opts = dict(rp['opts'])
    if isinstance(opts.get('weight_constant_axis'), list) and name in mm.INTEGRATION:
        opts['weight_constant_axis'] = tuple(opts['weight_constant_axis'])
    if rp.get('aligner'):
        from pb_bss.permutation_alignment import GreedyPermutationAlignment
        opts['inline_permutation_aligner'] = GreedyPermutationAlignment(similarity_metric='cos')
    init = np.array(rp['init'])
    init.setflags(write=False)
    K, N = init.shape[-2:]
    lead = init.shape[:-2]
    deg = rp.get('degenerate')
    tag = '%s:%s' % (name, deg or 'regular')
    topts = dict(rp.get('trainer_opts') or {})
    T = make_trainer(name, topts)
    seen = []                       # affiliation handed to each M-step, kept when the fit raises
    inner = T._m_step

    def keep(*a, **kw):
        seen.append(np.array(kw['affiliation'], dtype=float))
        return inner(*a, **kw)
    T._m_step = keep
    try:
        np.random.seed(rp['np_seed'])
        with Recorder() as rec:
            if rp.get('num_classes'):
                model, trace = mm.fit(name, data, None, num_classes=K, iterations=rp['iterations'], trainer=T, **opts)
            else:
                model, trace = mm.fit(name, data, init, iterations=rp['iterations'], trainer=T, **opts)
    except EXPLICIT as e:
        if deg:
            return None, None, None, '%s: %s' % (type(e).__name__, str(e)[:120]), False
        # regular stream: EM itself can drive a class to 'too few frames'; an explicit exception is accepted exactly then
        if seen:
            sal0 = opts.get('saliency')
            w = np.broadcast_to(seen[-1], (*lead, K, N)) * (1.0 if sal0 is None else np.asarray(sal0, dtype=float)[..., None, :])
            neff = w.sum(-1) ** 2 / np.maximum((w ** 2).sum(-1), tiny_of(w))
            dim = max(v.shape[-1] for v in data.values())
            if neff.min() < dim + 1:
                return None, None, None, '%s after a class collapsed to %.2f effective frames (<= D): %s' % (
                    type(e).__name__, neff.min(), str(e)[:80]), False
        return ('fit raised %s on a regular input: %s' % (type(e).__name__, str(e)[:300]),
                'fit:raises:%s:%s' % (name, type(e).__name__), None, None, False)
    except Exception as e:
        return ('fit raised %s (not an explicit, documented exception): %s' % (type(e).__name__, str(e)[:300]),
                'fit:crash:%s:%s' % (tag, type(e).__name__), None, None, False)
    fails, coq = [], []
    last = trace[-1]
    aff = np.asarray(last['affiliation'], dtype=float)
    aff = np.broadcast_to(aff, (*lead, K, N))
    sal = opts.get('saliency')
    wca = opts.get('weight_constant_axis', (-1,))
    eps_aff = float(opts.get('affiliation_eps', 0.0)) if len(trace) > 1 else 0.0
    mask = opts.get('source_activity_mask')
    dead = bool(mask is not None and not np.all(np.asarray(mask).any(-2)))
    p = nonfinite_field(model)
    if p:
        fails.append(('%s: fitted field %s contains NaN/Inf' % (tag, p), 'nonfinite:%s:%s' % (name, p)))
    wfull = pred_weights(name, model, lead, K, N, wca, eps_aff, aff, dead, fails)
    if wfull is not None:
        # only CACGMMTrainer passes saliency=None on to estimate_mixture_weight (np.mean); every other trainer replaces it by ones
        sal_w = sal if (sal is not None or name == 'cacgmm') else np.ones((*lead, N))
        coq += coq_weights(rng, name, lead, K, N, wca, aff, sal_w, wfull, np.shape(model.weight))
    salf = np.ones((*lead, N)) if sal is None else np.asarray(sal, dtype=float)
    s_all = aff * salf[..., None, :]                                  # (..., K, N): what each class trainer receives
    li = tuple(int(rng.integers(0, n)) for n in lead)
    k = int(rng.integers(0, K))
    nt = K >= 2
    if name in ('cacgmm', 'gcacgmm', 'vmfcacgmm'):
        key = 'observation' if name in mm.INTEGRATION else 'y'
        y = data[key]
        style = 'where' if name == 'cacgmm' else 'max'
        z = unit(y, style)
        q = np.broadcast_to(np.asarray(last['quadratic_form'], dtype=float), (*lead, K, N))
        t = tiny_of(y)
        c = s_all / np.maximum(q, 10 * t)
        scat = np.einsum('...kn,...nd,...ne->...kde', c, z, z.conj())
        norm = opts.get('covariance_norm', 'eigenvalue')
        scat_zero = below_tiny(scat, s_all.sum(-1), norm)
        floor = float(opts.get('eigenvalue_floor', 1e-10))
        U, lam = np.asarray(model.cacg.covariance_eigenvectors), np.asarray(model.cacg.covariance_eigenvalues)
        pred_cacg(tag, U, lam, norm, floor, scat_zero, fails)
        if np.all(np.isfinite(U[li][k])) and np.all(np.isfinite(lam[li][k])):
            coq.append(coq_cacg(y[li], s_all[li][k], q[li][k], U[li][k], lam[li][k], bool(opts.get('hermitize', True)),
                                name == 'cacgmm', norm, floor))
    if name == 'cwmm':
        y = data['y']
        z = unit(y, 'max')
        scat = np.einsum('...kn,...nd,...ne->...kde', s_all, z, z.conj())
        cw = model.complex_watson
        pred_watson(tag, np.asarray(cw.mode), np.asarray(cw.concentration), T.max_concentration,
                    np.abs(scat).max((-1, -2)) > 0, fails)
        spline_contract(T.complex_watson_trainer, fails, tag)
        if np.all(np.isfinite(cw.mode[li][k])):
            coq.append(coq_watson(y[li], s_all[li][k], np.asarray(cw.mode)[li][k]))
    if name in ('vmfmm', 'vmfcacgmm'):
        kmin, kmax = float(opts.get('min_concentration', 1e-10)), float(opts.get('max_concentration', 500))
        if name == 'vmfmm':
            y, sv = data['y'], s_all
            yv, svk = y[li], s_all[li][k]
            mean, conc = np.asarray(model.vmf.mean), np.asarray(model.vmf.concentration)
            mk, ck = mean[li][k], float(conc[li][k])
        else:
            F = lead[0]
            y = data['embedding'].reshape(F * N, -1)
            sv = np.transpose(s_all, (1, 0, 2)).reshape(K, F * N)
            yv, svk = y, sv[k]
            mean, conc = np.asarray(model.vmf.mean), np.asarray(model.vmf.concentration)
            mk, ck = mean[k], float(conc[k])
        z = unit(y, 'max')
        res = np.einsum('...kn,...nd->...kd', sv, z) if name == 'vmfmm' else np.einsum('kn,nd->kd', sv, z)
        pred_vmf(tag, mean, conc, kmin, kmax, np.linalg.norm(res, axis=-1), fails)
        coq.append(coq_vmf(yv, svk, mk, ck, kmin, kmax))
    if name in ('gmm', 'gcacgmm'):
        ctype = opts.get('covariance_type', 'full' if name == 'gmm' else 'spherical')
        g = model.gaussian
        pred_gauss(tag, g, ctype, fails)
        if name == 'gmm':
            yv, svk, gm, gc = data['y'][li], s_all[li][k], np.asarray(g.mean)[li][k], np.asarray(g.covariance)[li][k]
        else:
            F = lead[0]
            yv = data['embedding'].reshape(F * N, -1)
            svk = np.transpose(s_all, (1, 0, 2)).reshape(K, F * N)[k]
            gm, gc = np.asarray(g.mean)[k], np.asarray(g.covariance)[k]
        if np.all(np.isfinite(gm)) and np.all(np.isfinite(gc)):
            coq.append(coq_gauss(yv, svk, gm, gc, ctype))
    if name == 'cbmm':
        cb = model.complex_bingham
        U, lam = np.asarray(cb.covariance_eigenvectors), np.asarray(cb.covariance_eigenvalues)
        maxc = float(T.max_concentration)
        pred_bingham(tag, U, lam, maxc, float(T.eigenvalue_eps), fails)
        n_last = int(np.prod(lam.shape[:-1]))
        calls = rec.calls[-n_last:]
        if len(calls) == n_last and np.all(np.isfinite(lam)):
            flat = (list(np.ndindex(*lam.shape[:-1]))).index((*li, k))
            coq.append(coq_bingham(calls[flat], lam[li][k], maxc, float(T.eigenvalue_eps)))
    if nt:
        w = np.asarray(model.weight, dtype=float)
        nt = bool(w.size > 1 and float(np.ptp(w)) > 1e-9)
    fail, key = pick(fails)
    return fail, key, ('allR [%s]' % '; '.join(coq)) if coq else None, None, nt


# ----------------------------------------------------------------------------- single-distribution trainers
SINGLE = ['cacg', 'watson', 'vmf', 'gaussian', 'bingham']


_OM = {}


def case_single(rng, tier, i, degen=False, which=None, force_finite=False):
    which = which or SINGLE[int(rng.integers(0, len(SINGLE)))]
    D = int(rng.integers(2, 6))
    if which == 'bingham':
        D = int(rng.integers(2, 7 if force_finite else 5))
    mode = None
    if degen:
        mode = str(rng.choice(DEG_MODES))
        N = int(rng.integers(1, D + 1)) if mode == 'fewframes' else int(rng.integers(2, 13))
    else:
        N = int(rng.integers(D + 2, 30))
    lead = tuple(int(v) for v in rng.integers(1, 4, int(rng.integers(0, 3))))
    if which == 'bingham':
        lead = lead[:1]
    cplx = which in ('cacg', 'watson', 'bingham')
    sep = float(rng.choice([0.3, 2.0, 8.0, 40.0]))
    if cplx:
        a = mm.crandn(rng, (*lead, 1, D))
        y = a * mm.crandn(rng, (*lead, N, 1)) + mm.crandn(rng, (*lead, N, D)) / sep
    else:
        y = rng.normal(size=(*lead, 1, D)) * sep + rng.normal(size=(*lead, N, D))
    if degen:
        y = degenerate(rng, 'cwmm', {'y': y}, mode)['y']
    o = {}
    if which != 'cacg' and rng.random() < 0.5:
        s = rng.uniform(0.05, 2.0, size=(*lead, N))
        if degen and rng.random() < 0.3:
            s[..., ::2] = 0.0                      # some (not all) frames without weight
            s[..., 0] = 1.0
        o['saliency'] = s
    to = {}
    if which == 'cacg':
        o.update(hermitize=bool(rng.random() < 0.8), covariance_norm=['eigenvalue', 'trace', False][int(rng.integers(0, 3))],
                 eigenvalue_floor=float(rng.choice([1e-10, 1e-6, 1e-3])), iterations=int(rng.integers(1, 5)))
    elif which == 'watson':
        to = {'max_concentration': float(rng.choice([500, 100, 20]))}
    elif which == 'vmf':
        if rng.random() < 0.5:
            o.update(min_concentration=float(rng.choice([1e-10, 0.5])), max_concentration=float(rng.choice([500, 50, 5])))
    elif which == 'gaussian':
        o['covariance_type'] = ['full', 'diagonal', 'spherical'][int(rng.integers(0, 3))]
    elif which == 'bingham':
        to = {'max_concentration': float(rng.choice([500, 50, 5] if force_finite else [np.inf, np.inf, 500, 50, 5]))}
    rp = {'fn': 'single', 'which': which, 'y': y, 'opts': o, 'trainer_opts': to, 'degenerate': mode,
          'pick_seed': int(rng.integers(0, 2 ** 31))}
    if which == 'cacg':
        # own counters for the cACG trainer, degenerate and regular data apart: the documented defaults are relied upon on
        # every second case of either kind, in every run
        key_ = 1 if mode else 2
        _OM[key_] = _OM.get(key_, 0) + 1
        if _OM[key_] % 2 == 1:
            rp['omit'] = [['eigenvalue_floor'], ['eigenvalue_floor', 'covariance_norm', 'hermitize'], ['eigenvalue_floor', 'iterations']][(_OM[key_] // 2) % 3]
    label = 'fit %s D=%d N=%d lead=%s degenerate=%s trainer=%s opts=%s defaults=%s' % (which, D, N, lead, mode, to, mm.describe_options(o), rp.get('omit', []))
    fail, key, coq, raised, nt = eval_single(rp)
    return Case(label, coq=coq, pred_fail=fail, key=key, nontrivial=nt, digest_=core.digest(label, y, o.get('saliency')),
                sample={'name': label}, replay=rp, raised=raised, kind=('degenerate/' if degen else 'single/') + which)


def eval_single(rp):
    import pb_bss.distribution as d
    from pb_bss.distribution.complex_bingham import ComplexBinghamTrainer
    rng = np.random.default_rng(rp.get('pick_seed', 0))
    which, deg = rp['which'], rp.get('degenerate')
    y = np.array(rp['y'])
    y.setflags(write=False)
    o = dict(rp['opts'])
    # options the caller leaves to their documented defaults: omitted from the call, expected at the documented value
    DEFAULTS = {'cacg': {'hermitize': True, 'covariance_norm': 'eigenvalue', 'eigenvalue_floor': 1e-10, 'iterations': 10}}
    omit = [k for k in rp.get('omit', []) if k in DEFAULTS.get(which, {})]
    call_o = {k: v for k, v in o.items() if k not in omit}
    for k in omit:
        o[k] = DEFAULTS[which][k]
    to = dict(rp.get('trainer_opts') or {})
    tag = '%s:%s' % (which, deg or 'regular')
    N, D = y.shape[-2:]
    lead = y.shape[:-2]
    sal = o.get('saliency')
    qrec = []
    try:
        with Recorder() as rec:
            if which == 'cacg':
                T = d.ComplexAngularCentralGaussianTrainer()
                orig = T._fit

                def wrapped(*a, **kw):
                    qrec.append(np.array(kw['quadratic_form']))
                    return orig(*a, **kw)
                T._fit = wrapped
                model = T.fit(y, **call_o)
            elif which == 'watson':
                T = d.ComplexWatsonTrainer(**to)
                model = T.fit(y, **o)
            elif which == 'vmf':
                model = d.VonMisesFisherTrainer().fit(y, **o)
            elif which == 'gaussian':
                model = d.GaussianTrainer().fit(y, **o)
            else:
                T = ComplexBinghamTrainer(**to)
                model = T.fit(y, **o)
    except EXPLICIT as e:
        if deg:
            return None, None, None, '%s: %s' % (type(e).__name__, str(e)[:120]), False
        return ('fit raised %s on a regular input: %s' % (type(e).__name__, str(e)[:300]),
                'fit:raises:%s:%s' % (which, type(e).__name__), None, None, False)
    except Exception as e:
        return ('fit raised %s (not an explicit, documented exception): %s' % (type(e).__name__, str(e)[:300]),
                'fit:crash:%s:%s' % (tag, type(e).__name__), None, None, False)
    fails, coq = [], []
    p = nonfinite_field(model)
    if p:
        fails.append(('%s: fitted field %s contains NaN/Inf' % (tag, p), 'nonfinite:%s:%s' % (which, p)))
    s_all = np.ones((*lead, N)) if sal is None else np.asarray(sal, dtype=float)
    li = tuple(int(rng.integers(0, n)) for n in lead)
    if which == 'cacg':
        z = unit(y, 'where')
        q = qrec[-1]
        c = 1 / np.maximum(q, 10 * tiny_of(y))
        scat = np.einsum('...n,...nd,...ne->...de', c, z, z.conj())
        U, lam = np.asarray(model.covariance_eigenvectors), np.asarray(model.covariance_eigenvalues)
        pred_cacg(tag, U, lam, o['covariance_norm'], o['eigenvalue_floor'], below_tiny(scat, np.full(lead, float(N)), o['covariance_norm']), fails)
        q = np.broadcast_to(q, (*lead, N))
        if np.all(np.isfinite(U[li])) and np.all(np.isfinite(lam[li])):
            coq.append(coq_cacg(y[li], np.ones(N), q[li], U[li], lam[li], o['hermitize'], True, o['covariance_norm'], o['eigenvalue_floor']))
    elif which == 'watson':
        z = unit(y, 'max')
        scat = np.einsum('...n,...nd,...ne->...de', s_all, z, z.conj())
        pred_watson(tag, np.asarray(model.mode), np.asarray(model.concentration), T.max_concentration, np.abs(scat).max((-1, -2)) > 0, fails)
        spline_contract(T, fails, tag)
        if np.all(np.isfinite(model.mode)):
            coq.append(coq_watson(y[li], s_all[li], np.asarray(model.mode)[li]))
    elif which == 'vmf':
        z = unit(y, 'max')
        res = np.einsum('...n,...nd->...d', s_all, z)
        kmin, kmax = float(o.get('min_concentration', 1e-10)), float(o.get('max_concentration', 500))
        pred_vmf(tag, np.asarray(model.mean), np.asarray(model.concentration), kmin, kmax, np.linalg.norm(res, axis=-1), fails)
        coq.append(coq_vmf(y[li], s_all[li], np.asarray(model.mean)[li], float(np.asarray(model.concentration)[li]), kmin, kmax))
    elif which == 'gaussian':
        pred_gauss(tag, model, o['covariance_type'], fails)
        if np.all(np.isfinite(model.mean)) and np.all(np.isfinite(model.covariance)):
            coq.append(coq_gauss(y[li], s_all[li], np.asarray(model.mean)[li], np.asarray(model.covariance)[li], o['covariance_type']))
    else:
        U, lam = np.asarray(model.covariance_eigenvectors), np.asarray(model.covariance_eigenvalues)
        maxc = float(T.max_concentration)
        pred_bingham(tag, U, lam, maxc, float(T.eignevalue_eps), fails)
        n_last = int(np.prod(lam.shape[:-1]))
        if len(rec.calls) == n_last and np.all(np.isfinite(lam)):
            flat = list(np.ndindex(*lam.shape[:-1])).index(li)
            coq.append(coq_bingham(rec.calls[flat], lam[li], maxc, float(T.eignevalue_eps)))
    fail, key = pick(fails)
    return fail, key, ('allR [%s]' % '; '.join(coq)) if coq else None, None, True


# ----------------------------------------------------------------------------- witnesses of the _refuted theorems
# ----------------------------------------------------------------------------- single precision (predicate only)
def case_p32(rng, tier, i):
    """single-precision observation tensors (and start values) are finite observation tensors too: the NaN/Inf clause,
    the weight clause and the unit-norm clauses are evaluated with single-precision tolerances; no Coq expression"""
    kind = 'model' if i % 2 == 0 else 'single'
    mode = ['zero', 'repeat', 'identical', None][int(rng.integers(0, 4))]
    if kind == 'model':
        name = mm.MODELS[(i // 2) % 7]
        K, D, N = int(rng.integers(1, 4)), int(rng.integers(2, 5)), int(rng.integers(4, 14))
        if name == 'cacgmm':
            K = max(K, 2)
        lead = (int(rng.integers(1, 3)),) if name in mm.INTEGRATION else tuple(int(v) for v in rng.integers(1, 3, int(rng.integers(0, 2))))
        if name == 'cbmm':
            D, N = min(D, 3), min(N, 8)
        data = mm.make_data(rng, name, K, D, N, lead)
        if mode:
            data = degenerate(rng, name, data, mode)
        data = {k: (v.astype(np.complex64) if np.iscomplexobj(v) else v.astype(np.float32)) for k, v in data.items() if k != 'labels'}
        init = mm.make_init(rng, K, N, lead, 'positive').astype(np.float32)
        rp = {'fn': 'p32', 'kind': kind, 'model': name, 'data': data, 'init': init, 'iterations': int(rng.integers(1, 4)), 'degenerate': mode}
        label = 'single precision fit %s K=%d D=%d N=%d lead=%s iters=%d degenerate=%s' % (name, K, D, N, lead, rp['iterations'], mode)
    else:
        which = ['watson', 'vmf', 'gaussian', 'cacg'][(i // 2) % 4]
        D, N = int(rng.integers(2, 5)), int(rng.integers(4, 14))
        lead = tuple(int(v) for v in rng.integers(1, 3, int(rng.integers(0, 2))))
        y = mm.crandn(rng, (*lead, N, D)) if which in ('watson', 'cacg') else rng.normal(size=(*lead, N, D)) + 1.0
        if mode:
            y = degenerate(rng, 'cwmm', {'y': y}, mode)['y']
        y = y.astype(np.complex64) if np.iscomplexobj(y) else y.astype(np.float32)
        rp = {'fn': 'p32', 'kind': kind, 'which': which, 'y': y, 'degenerate': mode}
        label = 'single precision fit %s D=%d N=%d lead=%s degenerate=%s' % (which, D, N, lead, mode)
    fail, key, raised = eval_p32(rp)
    arrs = [v for v in (rp.get('data') or {'y': rp.get('y')}).values()]
    return Case(label, coq=None, pred_fail=fail, key=key, nontrivial=mode is not None, digest_=core.digest(label, *arrs),
                sample={'name': label}, replay=rp, raised=raised, kind='single-precision/' + (rp.get('model') or rp.get('which')))


def eval_p32(rp):
    import pb_bss.distribution as d
    try:
        if rp['kind'] == 'model':
            name = rp['model']
            data = {k: np.array(v) for k, v in rp['data'].items()}
            model, _ = mm.fit(name, data, np.array(rp['init']), iterations=rp['iterations'])
        else:
            y = np.array(rp['y'])
            name = rp['which']
            T = {'watson': d.ComplexWatsonTrainer, 'vmf': d.VonMisesFisherTrainer, 'gaussian': d.GaussianTrainer,
                 'cacg': d.ComplexAngularCentralGaussianTrainer}[name]()
            model = T.fit(y)
    except Exception as e:
        if core.deliberate_exception(e):
            return None, None, '%s: %s' % (type(e).__name__, str(e)[:120])
        return ('fit raised %s (not an explicit, deliberate exception): %s' % (type(e).__name__, str(e)[:300]),
                'p32:crash:%s:%s' % (name, type(e).__name__), None)
    pth = nonfinite_field(model)
    if pth:
        return ('single-precision input: fitted field %s contains NaN/Inf' % pth), 'p32:nonfinite:%s:%s' % (name, pth), None
    if rp['kind'] == 'model':
        w = np.asarray(model.weight, dtype=float)
        if w.min() < 0:
            return 'single-precision input: negative mixture weight', 'p32:weights:%s' % name, None
        K = np.array(rp['init']).shape[-2]
        full = mm.stored_weight(name, model, np.array(rp['init']).shape)
        if np.abs(full.sum(-2) - 1).max() > 1e-3:
            return ('single-precision input: mixture weights do not sum to one over classes (max dev %.3g)'
                    % np.abs(full.sum(-2) - 1).max()), 'p32:weights:%s' % name, None
    return None, None, None



def witness_cases():
    """the inputs behind C09_cacg_eig_max_one_refuted and C09_bingham_max_zero_refuted, replayed on the implementation"""
    out = []
    rng = np.random.default_rng(9)
    N, D, K = 6, 3, 2
    y = mm.crandn(rng, (N, D))
    y[:3] = 0
    init = np.zeros((K, N))
    init[0, :3] = 1
    init[1, 3:] = 1
    for norm in ('eigenvalue', 'trace'):
        rp = {'fn': 'model', 'model': 'cacgmm', 'data': {'y': y}, 'init': init, 'aligner': False, 'iterations': 1, 'trainer_opts': {},
              'opts': {'covariance_norm': norm, 'eigenvalue_floor': 1e-10, 'hermitize': True, 'affiliation_eps': 0.0,
                       'weight_constant_axis': (-1,)}, 'np_seed': 0, 'degenerate': 'zero', 'pick_seed': 2}
        fail, key, coq, raised, nt = eval_model(rp)
        out.append(Case('witness: cACGMM, 3 zero frames one-hot assigned to class 0, covariance_norm=%s' % norm, coq=coq, pred_fail=fail,
                        key=key, nontrivial=True, digest_=core.digest('w', y, init, norm), sample={'name': 'witness cacg ' + str(norm)},
                        replay=rp, raised=raised, kind='witness'))
    lam = np.array([5.15996555e-04, 6.28805516e-04, 1.37554184e-03, 1.53621463e-02, 3.74437619e-02, 9.44673748e-01])
    rp = {'fn': 'single', 'which': 'bingham', 'y': np.eye(6, dtype=complex), 'opts': {'saliency': lam},
          'trainer_opts': {'max_concentration': 500.0}, 'degenerate': 'witness', 'pick_seed': 0}
    fail, key, coq, raised, nt = eval_single(rp)
    out.append(Case('witness: ComplexBinghamTrainer(max_concentration=500), scatter eigenvalues of the find_eigenvalues_v3 docstring',
                    coq=coq, pred_fail=fail, key=key, nontrivial=True, digest_=core.digest('w', lam), sample={'name': 'witness bingham'},
                    replay=rp, raised=raised, kind='witness'))
    return out


# -----------------------------------------------------------------------------
def cases(rng, tier):
    q = tier == 'quick'
    out = witness_cases()
    for i in range(30 if q else 300):
        out.append(case_model(rng, tier, i))
    for i in range(35 if q else 350):
        out.append(case_model(rng, tier, i, degen=True))
    for i in range(7 if q else 28):
        out.append(case_model(rng, tier, i, name=mm.MODELS[i % 7], force_nc=True))
    for i in range(4 if q else 40):
        out.append(case_model(rng, tier, i, degen=bool(i % 2), name='cbmm', force_finite=True))
    for i in range(20 if q else 200):
        out.append(case_single(rng, tier, i))
    for i in range(25 if q else 250):
        out.append(case_single(rng, tier, i, degen=True))
    for i in range(4 if q else 40):
        out.append(case_single(rng, tier, i, degen=bool(i % 2), which='bingham', force_finite=True))
    for i in range(44 if q else 440):
        out.append(case_p32(rng, tier, i))
    # the NaN/Inf clause has no theorem behind it: a larger predicate-only budget on every run (no Coq expression)
    for i in range(300 if q else 4000):
        r = i % 4
        c = case_model(rng, tier, i, degen=(r != 0)) if r < 2 or r == 3 else case_single(rng, tier, i, degen=True)
        c.coq, c.kind = None, 'explore/' + c.kind
        out.append(c)
    return out


def search(rng, tier, hints):
    for i in range(240 if tier == 'quick' else 2000):
        r = i % 4
        c = case_model(rng, tier, i, degen=(r == 1)) if r < 2 else case_single(rng, tier, i, degen=(r == 3))
        if c.pred_fail and core.known_match(PID, c.key) is None:
            return [c]
    return []


def replay(payload):
    rp = payload['replay']
    if rp['fn'] == 'model':
        r = eval_model(rp)
    elif rp['fn'] == 'p32':
        r = eval_p32(rp)
    else:
        r = eval_single(rp)
    return r[0]
