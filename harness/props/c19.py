"""C19 -- SI-SDR and invasive SXR metrics obey their defining identities (si_sdr, input_sxr, output_sxr,
get_snr / set_snr).  Correspondence: the dB values (and the rescaled noise of set_snr, and the kind of the
returned value) produced by the implementation against Model/Metrics.v evaluated on PrimFloat inside Coq.
Predicates (independent NumPy, evaluated on the implementation's outputs): defining formulas, rescaling
invariances, harmonic identity 1/SDR = 1/SIR + 1/SNR, SDR <= min, SNR shift 20 log10 c under image scaling,
output selection = brute-force maximum, invariance under every permutation of the outputs, set/get SNR round
trip, tuple/dict decision for return_dict, per-leading-index independence, inputs untouched."""
import itertools
import numpy as np
from harness import core
from harness.core import Case

PID = 'C19'
REQUIRES = ['Run.C19', 'Model.Metrics']
RULE = ('si_sdr: 0..2 leading axes, T 8..256 (thorough ..4096), reference scale 1e-6..1e6, target SI-SDR -30..50 dB, '
        'broadcast reference, zero estimate; input_sxr / output_sxr: K 1..4, sensors/outputs 1..5 (outputs >= K), '
        'per-source gains, all average_sources/average_channels/return_dict in {False, True, str}, integer signals '
        'with exactly tied outputs; get_snr/set_snr: 1..3 axes, requested SNR -30..30 dB, inplace in {T,F}; '
        'non-trivial: T >= 8, finite result, K >= 2 for SIR clauses; distinct by SHA-1 of inputs and options')
NOT_PROVED = ('binary64 rounding (dB values compared with |d| <= 2^-30 (1 + |value|)); si_sdr per-leading-index '
              'independence, broadcasting and "inputs untouched" are predicates on every case, not theorems; '
              'the return-kind table is a theorem about the decision table the model copies from the code')
ASSUMPTIONS = ['real float64 signals (si_sdr asserts float64; the property quantifies over real signals)',
               'a prefix string for return_dict is non-empty (an empty string is falsy in Python)']

TOL_DB = 1e-7      # predicates: absolute tolerance on dB values


_NC = [0]
_NS = [0]
_NO = [0]


def natlit(n):
    return str(int(n)) if n <= 1000 else '(Z.to_nat %d)' % int(n)


def f3(a):
    return '[' + '; '.join(core.fmat(a[k]) for k in range(a.shape[0])) + ']'


def _pick_T(rng, tier):
    if tier == 'thorough' and rng.random() < 0.04:
        return int(rng.choice([1024, 2048, 4096]))
    hi = 257 if tier == 'quick' else 600
    return int(rng.integers(8, hi)) if rng.random() < 0.7 else int(rng.choice([8, 9, 16, 64, 128, 256]))


def _scale(rng):
    return float(10.0 ** rng.uniform(-6, 6)) * (1 if rng.random() < 0.8 else -1)


def _same(a, b, tol=TOL_DB):
    """dB arrays agree: same nan / inf pattern, finite entries within tol (absolute + tiny relative)"""
    a, b = np.asarray(a, float), np.asarray(b, float)
    if a.shape != b.shape:
        return False
    na, nb = np.isnan(a), np.isnan(b)
    if (na != nb).any():
        return False
    ia, ib = np.isinf(a), np.isinf(b)
    if (ia != ib).any() or (a[ia] != b[ib]).any():
        return False
    m = ~(na | ia)
    return bool(np.all(np.abs(a[m] - b[m]) <= tol * (1 + np.abs(b[m]))))


# ----------------------------------------------------------------------------------------- si_sdr
def make_si(rng, tier, special=None):
    lead = [int(v) for v in rng.integers(1, 4, int(rng.integers(0, 3)))]
    T = _pick_T(rng, tier)
    if T > 600:
        lead = lead[:1]
    ref = rng.normal(size=(*lead, T)) * 10.0 ** rng.uniform(-6, 6)
    target = rng.uniform(-30, 50, size=(*lead, 1))
    nz = rng.normal(size=(*lead, T))
    pr = np.sqrt((ref ** 2).mean(-1, keepdims=True))
    est = (ref / pr + nz * 10.0 ** (-target / 20)) * 10.0 ** rng.uniform(-6, 6)
    kind = 'random'
    r = rng.random()
    if special is None and r < 0.08:
        est = np.zeros_like(est); kind = 'zero-estimate'
    elif special is None and r < 0.16 and lead:
        ref = np.ascontiguousarray(ref[(0,) * len(lead)]); kind = 'broadcast-reference'
    elif special is None and r < 0.22:
        est = est + 3.0 * np.abs(est).max(); kind = 'offset'
    rp = {'fn': 'si_sdr', 'reference': ref, 'estimation': est, 'c_est': _scale(rng), 'c_ref': _scale(rng)}
    fail, key, coq = eval_si(rp, rng)
    name = 'si_sdr lead=%s T=%d %s' % (lead, T, kind)
    return Case(name, coq=coq, pred_fail=fail, key=key, nontrivial=kind != 'zero-estimate',
                digest_=core.digest(ref, est), sample={'name': name, 'reference': core.small(ref, 3)},
                replay=rp, kind='si_sdr/' + kind)


def _si_ref(s, e):
    s, e = np.broadcast_arrays(s, e)
    out = np.empty(s.shape[:-1])
    for ix in np.ndindex(*s.shape[:-1]):
        a = np.dot(s[ix], e[ix]) / np.dot(s[ix], s[ix])
        tgt = a * s[ix]
        res = e[ix] - tgt
        with np.errstate(all='ignore'):
            out[ix] = 10 * np.log10(np.dot(tgt, tgt) / np.dot(res, res))
    return out


def eval_si(rp, rng=None):
    from pb_bss.evaluation.module_si_sdr import si_sdr
    s, e = np.array(rp['reference']), np.array(rp['estimation'])
    s.setflags(write=False); e.setflags(write=False)
    sb, eb = s.tobytes(), e.tobytes()
    try:
        out = np.asarray(si_sdr(s, e))
    except Exception as ex:
        return 'si_sdr raised %s: %s on float64 input' % (type(ex).__name__, str(ex)[:200]), 'si_sdr:raises', None
    if s.tobytes() != sb or e.tobytes() != eb:
        return 'si_sdr modified its input', 'si_sdr:mutates', None
    S, E = np.broadcast_arrays(s, e)
    lead = S.shape[:-1]
    if out.shape != lead:
        return 'si_sdr result shape %s, expected %s' % (out.shape, lead), 'si_sdr:shape', None
    coq = _coq_si(S, E, out, rng)
    ref = _si_ref(s, e)
    if not _same(out, ref):
        return ('si_sdr differs from 10 log10(|alpha s|^2/|s_hat - alpha s|^2): %s vs %s'
                % (out.ravel()[:3], ref.ravel()[:3])), 'si_sdr:formula', coq
    # the optimal alpha: no other scaling of the reference leaves a smaller residual (checked on the formula value)
    fin = np.isfinite(ref)
    if fin.any():
        for c, which in ((rp['c_est'], 'estimate'), (rp['c_ref'], 'reference')):
            o2 = np.asarray(si_sdr(s * c, e) if which == 'reference' else si_sdr(s, e * c))
            if not _same(o2[fin], out[fin], 1e-6):
                return ('si_sdr changes under rescaling of the %s by %g: %s -> %s'
                        % (which, c, out[fin][:3], o2[fin][:3])), 'si_sdr:scale-%s' % which, coq
    # leading indices are independent problems
    for ix in list(np.ndindex(*lead))[:6]:
        o1 = si_sdr(np.ascontiguousarray(S[ix]), np.ascontiguousarray(E[ix]))
        if not _same(o1, out[ix], 1e-9):
            return 'si_sdr of the stack differs from si_sdr of slice %s' % (ix,), 'si_sdr:leading-index', coq
    return None, None, coq


def _coq_si(S, E, out, rng):
    lead = S.shape[:-1]
    T = S.shape[-1]
    idxs = list(np.ndindex(*lead))
    n = 3 if T <= 600 else 1
    if rng is not None and len(idxs) > n:
        idxs = [idxs[int(i)] for i in rng.choice(len(idxs), n, replace=False)]
    else:
        idxs = idxs[:n]
    parts = ['check_si_sdr %s %s %s %s' % (natlit(T), core.flist(S[ix]), core.flist(E[ix]), core.fhex(out[ix]))
             for ix in idxs]
    return 'allR [' + '; '.join(parts) + ']'


# ----------------------------------------------------------------------------------------- return kind
def _rd_pick(rng):
    r = rng.random()
    if r < 0.34:
        return False
    if r < 0.6:
        return True
    return str(rng.choice(['input_', 'output_', 'x', 'my_prefix_', 'a_b_']))


def _rd_coq(rd):
    if rd is True or rd is False:
        return 'RdBool %s' % core.cbool(rd)
    if isinstance(rd, str):
        return 'RdStr "%s"' % rd
    return 'RdOther %s' % core.cbool(bool(rd))


def _kind_of(fn, args, kw):
    """returns (kind_coq, obj): KTuple / KDict k1 k2 k3 / KTypeError"""
    try:
        r = fn(*args, **kw)
    except TypeError:
        return 'KTypeError', None
    if isinstance(r, dict):
        ks = list(r.keys())
        if len(ks) != 3:
            return 'KDict "?" "?" "?"', r
        return 'KDict "%s" "%s" "%s"' % tuple(ks), r
    if isinstance(r, tuple):
        return 'KTuple', r
    return 'KTypeError', r


def _kind_pred(fname, rd, kind, obj, base):
    """the property's clause: True / prefix string -> dict with (prefixed) keys; False -> tuple; same values"""
    if rd is False:
        want = None
    elif rd is True:
        want = ['sdr', 'sir', 'snr']
    elif isinstance(rd, str) and rd:
        want = [rd + 'sdr', rd + 'sir', rd + 'snr']
    else:
        return None, None
    cls = 'bool' if isinstance(rd, bool) else 'prefix-string'
    if want is None:
        if kind != 'KTuple':
            return '%s(return_dict=False) did not return the result tuple' % fname, '%s:return_dict:False' % fname
        vals = list(obj)
    else:
        if not isinstance(obj, dict) or list(obj.keys()) != want:
            got = 'tuple' if kind == 'KTuple' else (list(obj.keys()) if isinstance(obj, dict) else kind)
            return ('%s(return_dict=%r) returned %s, the property requires a dict with keys %s'
                    % (fname, rd, got, want)), '%s:return_dict:%s-not-dict' % (fname, cls)
        vals = [obj[k] for k in want]
    for v, b in zip(vals, base):
        if not _same(v, b, 1e-12):
            return '%s(return_dict=%r) values differ from the tuple values' % (fname, rd), '%s:return_dict:values' % fname
    return None, None


# ----------------------------------------------------------------------------------------- input_sxr
def make_in(rng, tier):
    K = int(rng.integers(1, 5)); D = int(rng.integers(1, 6)); T = _pick_T(rng, tier)
    if T > 600:
        K, D = min(K, 2), min(D, 2)
    gains = 10.0 ** rng.uniform(-2, 2, size=(K, D, 1))
    img = rng.normal(size=(K, D, T)) * gains * 10.0 ** rng.uniform(-4, 4)
    noi = rng.normal(size=(D, T)) * 10.0 ** rng.uniform(-2, 2, size=(D, 1)) * np.abs(img).mean()
    kind = 'random'
    if rng.random() < 0.12:
        img = rng.integers(-4, 5, size=(K, D, 8 if rng.random() < 0.5 else 16)).astype(float)
        img[..., 0] += 1 + (img[..., 0] == -1)       # no all-zero signal
        noi = rng.integers(-3, 4, size=(D, img.shape[-1])).astype(float); noi[:, 0] = 1 + 2 * (noi[:, 0] > 0)
        T = img.shape[-1]; kind = 'integer'
    _NC[0] += 1
    if kind == 'random' and _NC[0] % 6 == 0:
        # integer PCM samples as read from a wav file
        T = int(rng.choice([2048, 4096])); K, D = min(K, 2), min(D, 2)
        dt = [np.int16, np.int32][(_NC[0] // 6) % 2]
        img = rng.integers(-3000, 3001, size=(K, D, T)).astype(dt)
        noi = rng.integers(-300, 301, size=(D, T)).astype(dt)
        kind = 'pcm-' + np.dtype(dt).name
    rp = {'fn': 'input_sxr', 'images': img, 'noise': noi, 'average_sources': bool(rng.random() < 0.5),
          'average_channels': bool(rng.random() < 0.5), 'return_dict': _rd_pick(rng), 'c': _scale(rng), 'c2': _scale(rng)}
    fail, key, coq = eval_in(rp)
    name = 'input_sxr K=%d D=%d T=%d avg_src=%s avg_ch=%s return_dict=%r %s' % (
        K, D, T, rp['average_sources'], rp['average_channels'], rp['return_dict'], kind)
    return Case(name, coq=coq, pred_fail=fail, key=key, nontrivial=K >= 2, digest_=core.digest(img, noi, name),
                sample={'name': name, 'images': core.small(img, 3)}, replay=rp, kind='input_sxr/' + kind)


def _in_ref(img, noi, avgc, avgs):
    img, noi = np.asarray(img, dtype=float), np.asarray(noi, dtype=float)      # the reference works on the VALUES
    K, D, T = img.shape
    S = np.array([[np.dot(img[k, d], img[k, d]) / T for d in range(D)] for k in range(K)])
    N = np.array([np.dot(noi[d], noi[d]) / T for d in range(D)])
    I = np.array([[sum(S[n, d] for n in range(K) if n != k) for d in range(D)] for k in range(K)], dtype=float).reshape(K, D)
    if avgc:
        S, I, N = S.sum(-1) / D, I.sum(-1) / D, N.sum() / D
    with np.errstate(all='ignore'):
        r = [10 * np.log10(S / (I + N)), 10 * np.log10(S / I), 10 * np.log10(S / N)]
    if avgs:
        r = [x.sum(0) / K for x in r]
    return r


def _lin_identities(fname, sdr, sir, snr):
    """1/SDR = 1/SIR + 1/SNR in the linear domain and SDR <= min(SIR, SNR), on un-averaged dB values"""
    with np.errstate(all='ignore'):
        lhs = 10.0 ** (-np.asarray(sdr) / 10)
        rhs = 10.0 ** (-np.asarray(sir) / 10) + 10.0 ** (-np.asarray(snr) / 10)
    if not np.all(np.abs(lhs - rhs) <= 1e-9 * np.abs(rhs)):
        return '%s: 1/SDR != 1/SIR + 1/SNR (linear): %s vs %s' % (fname, lhs.ravel()[:3], rhs.ravel()[:3]), '%s:harmonic' % fname
    if not np.all(np.asarray(sdr) <= np.minimum(sir, snr) + 1e-9):
        return '%s: SDR exceeds min(SIR, SNR)' % fname, '%s:sdr-le-min' % fname
    return None, None


def eval_in(rp):
    from pb_bss.evaluation.sxr_module import input_sxr
    img, noi = np.array(rp['images']), np.array(rp['noise'])
    img.setflags(write=False); noi.setflags(write=False)
    ib, nb = img.tobytes(), noi.tobytes()
    avgs, avgc, rd = rp['average_sources'], rp['average_channels'], rp['return_dict']
    K, D, T = img.shape
    try:
        base = input_sxr(img, noi, average_sources=avgs, average_channels=avgc)
    except Exception as ex:
        return 'input_sxr raised %s: %s' % (type(ex).__name__, str(ex)[:200]), 'input_sxr:raises', None
    if img.tobytes() != ib or noi.tobytes() != nb:
        return 'input_sxr modified its input', 'input_sxr:mutates', None
    base = [np.asarray(v, float) for v in base]
    shape = (() if avgs else (K,)) + (() if avgc else (D,))
    if any(v.shape != shape for v in base):
        return 'input_sxr result shapes %s, expected %s' % ([v.shape for v in base], shape), 'input_sxr:shape', None
    kind, obj = _kind_of(input_sxr, (img, noi), dict(average_sources=avgs, average_channels=avgc, return_dict=rd))
    coq = 'allR [check_input_sxr %d %d %s %s %s %s %s %s %s %s; check_return_kind false (%s) (%s)]' % (
        K, D, natlit(T), f3(img), core.fmat(noi), core.cbool(avgc), core.cbool(avgs),
        core.flist(base[0].ravel()), core.flist(base[1].ravel()), core.flist(base[2].ravel()), _rd_coq(rd), kind)
    ref = _in_ref(img, noi, avgc, avgs)
    for nm, a, b in zip(('SDR', 'SIR', 'SNR'), base, ref):
        if not _same(a, b):
            return ('input_sxr %s differs from the signal/interference/noise power ratio: %s vs %s'
                    % (nm, a.ravel()[:3], np.asarray(b).ravel()[:3])), 'input_sxr:formula:%s' % nm, coq
    raw = [np.asarray(v, float) for v in input_sxr(img, noi, average_sources=False, average_channels=avgc)]
    f, k = _lin_identities('input_sxr', *raw)
    if f:
        return f, k, coq
    c, c2 = rp['c'], rp['c2']
    sc = [np.asarray(v, float) for v in input_sxr(img * c, noi * c, average_sources=avgs, average_channels=avgc)]
    if not all(_same(a, b) for a, b in zip(sc, base)):
        return 'input_sxr changes under a common rescaling by %g' % c, 'input_sxr:common-scale', coq
    si = [np.asarray(v, float) for v in input_sxr(img * c2, noi, average_sources=avgs, average_channels=avgc)]
    if not _same(si[2], base[2] + 20 * np.log10(abs(c2))) or not _same(si[1], base[1]):
        return ('input_sxr: scaling the images by %g must shift SNR by 20 log10|c| = %.6f dB and keep SIR; '
                'SNR %s -> %s, SIR %s -> %s' % (c2, 20 * np.log10(abs(c2)), base[2].ravel()[:2], si[2].ravel()[:2],
                                                 base[1].ravel()[:2], si[1].ravel()[:2])), 'input_sxr:image-scale', coq
    f, k = _kind_pred('input_sxr', rd, kind, obj, base)
    if f:
        return f, k, coq
    return None, None, coq


# ----------------------------------------------------------------------------------------- output_sxr
def make_out(rng, tier):
    Ks = int(rng.integers(1, 5)); Kt = int(rng.integers(Ks, 6)); T = _pick_T(rng, tier)
    if T > 600:
        Ks, Kt = min(Ks, 2), min(Kt, 3)
    kind = 'random'
    r = rng.random()
    if r < 0.12:
        T = 8 if rng.random() < 0.5 else 16
        img = rng.integers(-4, 5, size=(Ks, Kt, T)).astype(float)
        img[..., 0] += 1 + (img[..., 0] == -1)
        noi = rng.integers(-3, 4, size=(Kt, T)).astype(float); noi[:, 0] = 1 + 2 * (noi[:, 0] > 0)
        if Kt >= 2:      # two outputs carry exactly the same image contributions (exact tie), different noise
            a, b = rng.choice(Kt, 2, replace=False)
            img[:, b] = img[:, a]
            noi[b] = noi[a] * 2
        kind = 'integer-tied'
    else:
        # separation system: output perm[k] mostly carries source k, leakage elsewhere
        leak = 10.0 ** rng.uniform(-3, 0)
        gains = leak * rng.random((Ks, Kt)) + 0.0
        perm = rng.permutation(Kt)[:Ks]
        for k in range(Ks):
            gains[k, perm[k]] = 1.0 + rng.random()
        if r < 0.3:
            gains = rng.random((Ks, Kt))         # no dominant assignment
            kind = 'unstructured'
        img = rng.normal(size=(Ks, Kt, T)) * gains[..., None] * 10.0 ** rng.uniform(-4, 4)
        noi = rng.normal(size=(Kt, T)) * 10.0 ** rng.uniform(-2, 1) * np.abs(img).mean()
    _NC[0] += 1
    if kind == 'random' and _NC[0] % 6 == 0:
        T = int(rng.choice([2048, 4096])); Ks, Kt = min(Ks, 2), min(Kt, 3)
        dt = [np.int16, np.int32][(_NC[0] // 6) % 2]
        gains = np.full((Ks, Kt), 0.05)
        for k, o in enumerate(rng.permutation(Kt)[:Ks]):
            gains[k, o] = 1.0
        img = np.round(rng.integers(-3000, 3001, size=(Ks, Kt, T)) * gains[..., None]).astype(dt)
        noi = rng.integers(-100, 101, size=(Kt, T)).astype(dt)
        kind = 'pcm-' + np.dtype(dt).name
    if _NO[0] % 5 == 2:
        # four or five outputs, two sources contest the same output (both are strongest there): taking the strongest pair first
        # is not the power-maximising selection
        Ks = int(rng.integers(2, 4)); Kt = int(rng.integers(4, 6)); T = int(rng.integers(32, 200))
        gains = 0.05 * rng.uniform(0.5, 1.5, size=(Ks, Kt))
        o = rng.permutation(Kt)
        gains[0, o[0]], gains[0, o[1]] = 4.0, 3.6
        gains[1, o[0]], gains[1, o[1]] = 3.6, 0.5
        if Ks == 3:
            gains[2, o[2]] = 2.0
        img = rng.normal(size=(Ks, Kt, T)) * gains[..., None] * 10.0 ** rng.uniform(-2, 2)
        noi = rng.normal(size=(Kt, T)) * 1e-2 * np.abs(img).mean()
        kind = 'contested'
    _NO[0] += 1
    if kind == 'random' and _NO[0] % 5 == 0:
        # more outputs than sources, and a loud source leaks so strongly into a spare output that this output carries more
        # total image power than the output holding a quiet source
        Ks = 2; Kt = int(rng.integers(3, 5)); T = int(rng.integers(32, 200))
        gains = np.full((Ks, Kt), 0.1) * rng.uniform(0.5, 1.5, size=(Ks, Kt))
        o = rng.permutation(Kt)
        gains[0, o[0]] = 10.0; gains[0, o[2]] = 9.0           # loud source: own output o[0], spare output o[2]
        gains[1, o[1]] = 1.0                                   # quiet source: own output o[1]
        img = rng.normal(size=(Ks, Kt, T)) * gains[..., None] * 10.0 ** rng.uniform(-2, 2)
        noi = rng.normal(size=(Kt, T)) * 1e-2 * np.abs(img).mean()
        kind = 'leaky-spare'
    rp = {'fn': 'output_sxr', 'image_contribution': img, 'noise_contribution': noi,
          'average_sources': bool(rng.random() < 0.5), 'return_dict': _rd_pick(rng), 'c': _scale(rng), 'c2': _scale(rng)}
    fail, key, coq = eval_out(rp)
    name = 'output_sxr Ks=%d Kt=%d T=%d avg_src=%s return_dict=%r %s' % (Ks, Kt, T, rp['average_sources'], rp['return_dict'], kind)
    return Case(name, coq=coq, pred_fail=fail, key=key, nontrivial=Ks >= 2 and Kt >= 2, digest_=core.digest(img, noi, name),
                sample={'name': name, 'image_contribution': core.small(img, 3)}, replay=rp, kind='output_sxr/' + kind)


def _out_ref(img, noi, avgs):
    """brute force over all injective selections; returns (values, margin between best and second best)"""
    img, noi = np.asarray(img, dtype=float), np.asarray(noi, dtype=float)
    Ks, Kt, T = img.shape
    S = np.array([[np.dot(img[k, j], img[k, j]) / T for j in range(Kt)] for k in range(Ks)]).reshape(Ks, Kt)
    N = np.array([np.dot(noi[j], noi[j]) / T for j in range(Kt)])
    best, best_v, second = None, -np.inf, -np.inf
    for sel in itertools.permutations(range(Kt), Ks):
        v = sum(S[k, sel[k]] for k in range(Ks))
        if v > best_v:
            second, best_v, best = best_v, v, sel
        elif v > second:
            second = v
    SS = np.array([S[k, best[k]] for k in range(Ks)])
    II = np.array([sum(S[j, best[k]] for j in range(Ks) if j != k) for k in range(Ks)], dtype=float)
    NN = np.array([N[best[k]] for k in range(Ks)])
    with np.errstate(all='ignore'):
        r = [10 * np.log10(SS / (II + NN)), 10 * np.log10(SS / II), 10 * np.log10(SS / NN)]
    if avgs:
        r = [x.sum() / Ks for x in r]
    margin = (best_v - second) / best_v if np.isfinite(second) else np.inf
    return r, margin


def eval_out(rp):
    from pb_bss.evaluation.sxr_module import output_sxr
    img, noi = np.array(rp['image_contribution']), np.array(rp['noise_contribution'])
    img.setflags(write=False); noi.setflags(write=False)
    ib, nb = img.tobytes(), noi.tobytes()
    avgs, rd = rp['average_sources'], rp['return_dict']
    Ks, Kt, T = img.shape
    try:
        base = output_sxr(img, noi, average_sources=avgs)
    except Exception as ex:
        return 'output_sxr raised %s: %s' % (type(ex).__name__, str(ex)[:200]), 'output_sxr:raises', None
    if img.tobytes() != ib or noi.tobytes() != nb:
        return 'output_sxr modified its input', 'output_sxr:mutates', None
    base = [np.asarray(v, float) for v in base]
    shape = () if avgs else (Ks,)
    if any(v.shape != shape for v in base):
        return 'output_sxr result shapes %s, expected %s' % ([v.shape for v in base], shape), 'output_sxr:shape', None
    kind, obj = _kind_of(output_sxr, (img, noi), dict(average_sources=avgs, return_dict=rd))
    ref, margin = _out_ref(img, noi, avgs)
    exact = np.all(img == np.round(img)) and T in (8, 16)
    coq = None
    if margin > 1e-9 or exact:          # a near-tie is decided by rounding: not a well-defined observable
        coq = 'allR [check_output_sxr %d %d %s %s %s %s %s %s %s; check_return_kind true (%s) (%s)]' % (
            Ks, Kt, natlit(T), f3(img), core.fmat(noi), core.cbool(avgs),
            core.flist(base[0].ravel()), core.flist(base[1].ravel()), core.flist(base[2].ravel()), _rd_coq(rd), kind)
    else:
        coq = 'check_return_kind true (%s) (%s)' % (_rd_coq(rd), kind)
    if margin > 1e-9:
        for nm, a, b in zip(('SDR', 'SIR', 'SNR'), base, ref):
            if not _same(a, b):
                return ('output_sxr %s differs from the value for the selection of outputs that captures the most '
                        'source power: %s vs %s' % (nm, a.ravel()[:3], np.asarray(b).ravel()[:3])), 'output_sxr:selection:%s' % nm, coq
    raw = [np.asarray(v, float) for v in output_sxr(img, noi, average_sources=False)]
    f, k = _lin_identities('output_sxr', *raw)
    if f:
        return f, k, coq
    if margin > 1e-9:
        perms = list(itertools.permutations(range(Kt)))
        for p in perms:
            p = list(p)
            o = [np.asarray(v, float) for v in output_sxr(np.ascontiguousarray(img[:, p]), np.ascontiguousarray(noi[p]),
                                                          average_sources=avgs)]
            if not all(_same(a, b, 1e-9) for a, b in zip(o, base)):
                return 'output_sxr depends on the order of the outputs (permutation %s)' % p, 'output_sxr:output-order', coq
        c, c2 = rp['c'], rp['c2']
        sc = [np.asarray(v, float) for v in output_sxr(img * c, noi * c, average_sources=avgs)]
        if not all(_same(a, b) for a, b in zip(sc, base)):
            return 'output_sxr changes under a common rescaling by %g' % c, 'output_sxr:common-scale', coq
        si = [np.asarray(v, float) for v in output_sxr(img * c2, noi, average_sources=avgs)]
        if not _same(si[2], base[2] + 20 * np.log10(abs(c2))) or not _same(si[1], base[1]):
            return ('output_sxr: scaling the image contributions by %g must shift SNR by 20 log10|c| and keep SIR'
                    % c2), 'output_sxr:image-scale', coq
    f, k = _kind_pred('output_sxr', rd, kind, obj, base)
    if f:
        return f, k, coq
    return None, None, coq


# ----------------------------------------------------------------------------------------- get_snr / set_snr
def make_snr(rng, tier):
    nd = int(rng.integers(1, 4))
    shape = [int(v) for v in rng.integers(1, 5, nd - 1)] + [int(rng.integers(8, 40))]
    X = rng.normal(size=shape) * 10.0 ** rng.uniform(-6, 6)
    N = rng.normal(size=shape) * 10.0 ** rng.uniform(-6, 6)
    _NS[0] += 1
    pcm = None
    if _NS[0] % 4 == 0:
        # real signals as they come from a wav file: integer PCM samples (int16 / int32), long enough to matter
        shape = shape[:-1] + [int(rng.choice([2048, 4096]))]
        pcm = [np.int16, np.int32][(_NS[0] // 4) % 2]
        X = rng.integers(-3000, 3001, size=shape).astype(pcm)
        N = rng.integers(-300, 301, size=shape).astype(pcm)
    elif _NS[0] % 4 == 1:
        # single-precision signals (float32 audio buffers), levels inside the float32 range
        X = (rng.normal(size=shape) * 10.0 ** rng.uniform(-3, 3)).astype(np.float32)
        N = (rng.normal(size=shape) * 10.0 ** rng.uniform(-3, 3)).astype(np.float32)
    elif _NS[0] % 4 == 2:
        # target and noise need not have the same number of samples / channels when no axis is given (whole-array powers)
        N = rng.normal(size=([1] + shape[1:-1] if nd >= 2 else []) + [int(rng.integers(8, 40))]) * 10.0 ** rng.uniform(-6, 6)
    rp = {'fn': 'snr', 'X': X, 'N': N, 'snr': float(rng.uniform(-30, 30)) if rng.random() < 0.8 else float(rng.integers(-3, 4) * 10),
          'inplace': (bool(rng.random() < 0.5) or (_NS[0] % 8 == 1)) and pcm is None,
          'rowwise': bool(nd >= 2 and rng.random() < 0.3) and N.shape == X.shape}
    fail, key, coq = eval_snr(rp)
    name = 'set_snr/get_snr shape=%s noise shape=%s dtype=%s snr=%.3f inplace=%s rowwise=%s' % (shape, list(N.shape), X.dtype, rp['snr'], rp['inplace'], rp['rowwise'])
    return Case(name, coq=coq, pred_fail=fail, key=key, nontrivial=True, digest_=core.digest(X, N, name),
                sample={'name': name, 'X': core.small(X, 3)}, replay=rp, kind='snr')


def eval_snr(rp):
    from pb_bss.evaluation.sxr_module import get_snr, set_snr
    X, N0, snr = np.array(rp['X']), np.array(rp['N']), rp['snr']
    X.setflags(write=False)
    xb = X.tobytes()
    kw = {'axis': -1} if rp['rowwise'] else {}
    try:
        cur = get_snr(X, N0, **kw)
        if rp['inplace']:
            N = N0.copy()
            ret = set_snr(X, N, snr, **kw)
            if ret is not None:
                return 'set_snr(inplace=True) returned %r' % type(ret), 'set_snr:inplace-return', None
        else:
            N0.setflags(write=False)
            nb = N0.tobytes()
            ret = set_snr(X, N0, snr, inplace=False, **kw)
            if N0.tobytes() != nb:
                return 'set_snr(inplace=False) modified the noise array', 'set_snr:mutates', None
            X2, N = ret
            if X2 is not X and not np.array_equal(X2, X):
                return 'set_snr(inplace=False) changed the target', 'set_snr:target', None
        new = get_snr(X, N, **kw)
    except Exception as ex:
        return 'get_snr/set_snr raised %s: %s' % (type(ex).__name__, str(ex)[:200]), 'snr:raises', None
    if X.tobytes() != xb:
        return 'set_snr modified the target signal', 'set_snr:mutates-target', None
    coq = None
    single = X.dtype == np.float32
    tol = 1e-4 if single else TOL_DB          # float32: 24-bit products
    if not rp['rowwise'] and X.shape == N0.shape and X.size <= 200 and not single:
        n = X.size
        coq = 'allR [check_get_snr %s %s %s %s; check_set_snr %s %s %s %s %s]' % (
            natlit(n), core.flist(X.ravel()), core.flist(N0.ravel()), core.fhex(cur),
            natlit(n), core.flist(X.ravel()), core.flist(N0.ravel()), core.fhex(snr), core.flist(np.asarray(N).ravel()))
    px = (X.astype(float) ** 2).sum(**kw) / (X.shape[-1] if rp['rowwise'] else X.size)
    pn = (N0.astype(float) ** 2).sum(**kw) / (N0.shape[-1] if rp['rowwise'] else N0.size)
    if not _same(cur, 10 * np.log10(px / pn), tol):
        return 'get_snr differs from 10 log10(mean X^2 / mean N^2)', 'get_snr:formula', coq
    if not _same(new, np.full(np.shape(new), snr), tol):
        return ('get_snr after set_snr(snr=%g) returns %s' % (snr, np.asarray(new).ravel()[:3])), 'set_snr:round-trip', coq
    return None, None, coq


# ----------------------------------------------------------------------------------------- odd return_dict arguments
def make_kind(rng, tier, i):
    """faithfulness of the decision-table model on arguments the property does not speak about"""
    from pb_bss.evaluation.sxr_module import input_sxr, output_sxr
    rd = [1, 0, None, '', 2.5, 'p_', True, False][i % 8]
    img = rng.normal(size=(2, 2, 8)); noi = rng.normal(size=(2, 8))
    parts = []
    for is_out, fn in ((False, input_sxr), (True, output_sxr)):
        kind, _ = _kind_of(fn, (img, noi), dict(return_dict=rd))
        parts.append('check_return_kind %s (%s) (%s)' % (core.cbool(is_out), _rd_coq(rd), kind))
    name = 'return kind for return_dict=%r' % (rd,)
    return Case(name, coq='allR [' + '; '.join(parts) + ']', nontrivial=False, digest_=core.digest(name),
                sample=None, replay={'fn': 'kind', 'return_dict': rd}, kind='return-kind')


# ----------------------------------------------------------------------------------------- driver
def cases(rng, tier):
    n = 36 if tier == 'quick' else 360
    out = []
    for i in range(n):
        out.append(make_si(rng, tier))
        out.append(make_in(rng, tier))
        out.append(make_out(rng, tier))
        if i % 2 == 0:
            out.append(make_snr(rng, tier))
    for i in range(8):
        out.append(make_kind(rng, tier, i))
    return out


def search(rng, tier, hints):
    """after a break: look for a concrete input on which the property's own predicates fail"""
    makers = [make_si, make_in, make_out, make_snr]
    for i in range(400 if tier == 'quick' else 3000):
        c = makers[i % 4](rng, 'quick')
        if c.pred_fail:
            return [c]
    return []


def replay(payload):
    rp = payload['replay']
    fn = rp['fn']
    if fn == 'si_sdr':
        return eval_si(rp)[0]
    if fn == 'input_sxr':
        return eval_in(rp)[0]
    if fn == 'output_sxr':
        return eval_out(rp)[0]
    if fn == 'snr':
        return eval_snr(rp)[0]
    return None
