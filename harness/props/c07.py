"""C07 -- log_pdf is the logarithm of the named, normalised density.
Families: Gaussian (full / diagonal / spherical), complex circularly symmetric Gaussian, von Mises-Fisher,
complex Watson, complex Bingham, complex angular central Gaussian (pb_bss/distribution/*.py).
Correspondence: for up to two leading slices of every generated distribution object, all evaluation points:
the implementation's log_pdf against Model/LogPdf.v evaluated on PrimFloat inside Coq (Run/C07.v); the outputs of
external routines (sklearn precision Cholesky factor, slogdet/solve, ive, hyp1f1) are handed over as oracle values
and their contracts are checked per case (Cholesky / solve / slogdet residuals here, ive / hyp1f1 against the
truncated Bessel / Kummer series inside Coq).
Predicates (independent NumPy/SciPy): scipy.stats references and closed forms of the textbook densities, slices of
a stacked object equal per-slice objects, inputs untouched, finite values; quadrature of exp(log_pdf) over R^D, C,
the circle / sphere and the complex sphere of C^2 for the "integrates to one" clause."""
import math
from decimal import Decimal, getcontext

import numpy as np
from harness import core
from harness.core import Case

PID = 'C07'
REQUIRES = ['Run.C07']
SHARD = 30
RULE = ('per family: D in 1..8 (2..6 for Watson / Bingham / cACG), 0..2 leading axes, 1..4 evaluation points; '
        'non-diagonal SPD/HPD covariances with condition number 1..1e8, concentrations log-uniform in [1e-6, 500], '
        'Bingham eigenvalue gaps log-uniform >= 1e-3 (kinds spread / mixed / cluster), unit-norm or unnormalised '
        'points as the class documents; non-trivial: D >= 2, covariance / mode not axis aligned, point off the mean '
        '/ mode; distinct by SHA-1 of parameters and points')
NOT_PROVED = ('"exp(log_pdf) integrates to one (to the sphere area for cACG)": no Lebesgue / surface measure on R^D, '
              'C^D or spheres in the installed libraries; supported by quadrature (kinds int:*) for D <= 3 (real) and '
              'D <= 2 (complex) only.  Positivity of Kent\'s Bingham normaliser is a hypothesis of the Bingham theorem. '
              'det Sigma / det B enter the theorems through the written contracts (log-determinant of the Cholesky '
              'factor, product of the eigenvalues): the development has no determinant.  Truncation error of the '
              'Bessel / Kummer series and binary64 rounding are part of the tolerance (2^-30, scale-aware).')
ASSUMPTIONS = ['sklearn _compute_precision_cholesky: P P^T = Sigma^-1, sum log diag P = -1/2 log det Sigma (residual per case)',
               'numpy.linalg.solve / slogdet contracts (residual per case)',
               'scipy.special.ive / hyp1f1 equal the Bessel / Kummer series (residual per case, inside Coq)',
               'stored eigenvectors unitary (residual per case)']

TINY = float(np.finfo(np.float64).tiny)
RTOL = 1e-6      # predicates: relative to the sum of the magnitudes of the terms of the reference


# --------------------------------------------------------------------------- generators
def _lead(rng):
    n = int(rng.choice([0, 0, 1, 1, 2]))
    return tuple(int(s) for s in rng.integers(1, 4, n))


EXTREME_SCALES = [True]     # switched off while drawing quadrature cases (the fixed grids assume moderate scales)


def _spd(rng, lead, D, complex_=False):
    """random non-diagonal SPD / HPD matrices with condition number 10^U(0,8)"""
    a = rng.normal(size=(*lead, D, D))
    if complex_:
        a = a + 1j * rng.normal(size=(*lead, D, D))
    q, _ = np.linalg.qr(a)
    logc = rng.uniform(0, 8, size=lead + (1,)) * (rng.random(lead + (1,)) < 0.85)
    ev = 10.0 ** (-logc * np.sort(rng.random((*lead, D)), axis=-1))
    if D > 1:
        ev[..., 0] = 1.0
        ev[..., -1] = 10.0 ** (-logc[..., 0])
    ev = ev * 10.0 ** rng.uniform(-2, 2, size=lead + (1,))
    if EXTREME_SCALES[0] in ('force+', 'force-') and D >= 3:
        ev = ev * 10.0 ** ((1 if EXTREME_SCALES[0] == 'force+' else -1) * min(150.0, 320.0 / D + 3.0))
    elif EXTREME_SCALES[0] is True and rng.random() < 0.3:
        # the absolute scale of a covariance is free (only the condition number is bounded): det may leave the binary64
        # range although log det is an ordinary number
        e_big = min(150.0, 320.0 / D + 3.0)          # |D * e_big| > 308 for D >= 3: det over/underflows, log det does not
        ev = ev * 10.0 ** rng.choice([-e_big, -30.0, 30.0, e_big], size=lead + (1,))
    cov = np.einsum('...ik,...k,...jk->...ij', q, ev, q.conj())
    cov = (cov + np.conj(np.swapaxes(cov, -1, -2))) / 2
    return cov, q, ev


def _unit(rng, shape, complex_=False):
    v = rng.normal(size=shape)
    if complex_:
        v = v + 1j * rng.normal(size=shape)
    return v / np.linalg.norm(v, axis=-1, keepdims=True)


def _kappa(rng, lead):
    k = 10.0 ** rng.uniform(-6, math.log10(500.0), size=lead)
    r = rng.random(lead)
    k = np.where(r < 0.06, 1e-6, np.where(r > 0.94, 500.0, k))
    return np.asarray(k, dtype=float)


_GD = [0]
_VK = [0]


def gen(rng, fam, tier, D=None, kind=None):
    lead = _lead(rng)
    N = int(rng.integers(1, 5))
    if fam in ('gauss_full', 'gauss_diag', 'gauss_sph'):
        D = int(rng.integers(1, 9))
        mean = rng.normal(size=(*lead, D)) * 10.0 ** rng.integers(-1, 2)
        if fam == 'gauss_full':
            cov, q, ev = _spd(rng, lead, D)
            sd = np.sqrt(ev)
            y = mean[..., None, :] + np.einsum('...ik,...k,...nk->...ni', q, sd, rng.normal(size=(*lead, N, D))) \
                * float(rng.choice([0.3, 1.0, 3.0]))
            if rng.random() < 0.3:
                y = mean[..., None, :] + rng.normal(size=(*lead, N, D)) * np.sqrt(ev.max())
        elif fam == 'gauss_diag':
            cov = 10.0 ** rng.uniform(-4, 4, size=(*lead, D))
            if rng.random() < 0.2:
                cov = rng.integers(1, 10, size=(*lead, D)).astype(float)
            _GD[0] += 1
            if _GD[0] % 4 == 0:
                # a tight cloud far from the origin (|mean| / std up to 1e8): y^2/v - 2 y m / v + m^2/v would cancel
                mean = rng.uniform(1.0, 3.0, size=(*lead, D)) * 1e5
                cov = 10.0 ** rng.uniform(-6, -2, size=(*lead, D))
            y = mean[..., None, :] + rng.normal(size=(*lead, N, D)) * np.sqrt(cov)[..., None, :] * float(rng.choice([0.3, 1.0, 3.0]))
        else:
            cov = np.asarray(10.0 ** rng.uniform(-4, 4, size=lead), dtype=float)
            y = mean[..., None, :] + rng.normal(size=(*lead, N, D)) * np.sqrt(cov)[..., None, None] * float(rng.choice([0.3, 1.0, 3.0]))
        return {'fam': fam, 'mean': mean, 'covariance': cov, 'y': y}
    if fam == 'ccsg':
        D = int(rng.integers(1, 9))
        cov, q, ev = _spd(rng, lead, D, complex_=True)
        w = (rng.normal(size=(*lead, N, D)) + 1j * rng.normal(size=(*lead, N, D))) / np.sqrt(2)
        y = np.einsum('...ik,...k,...nk->...ni', q, np.sqrt(ev), w) * float(rng.choice([0.3, 1.0, 3.0]))
        if rng.random() < 0.3:
            y = (rng.normal(size=(*lead, N, D)) + 1j * rng.normal(size=(*lead, N, D))) * np.sqrt(ev.max())
        return {'fam': fam, 'covariance': cov, 'y': y}
    if fam == 'vmf':
        D = int(rng.integers(1, 9))
        _VK[0] += 1
        corner = None
        if _VK[0] % 3 == 0:
            # corners of the stated domain: largest dimensions with the smallest / largest concentration (the Bessel value
            # I_{D/2-1}(kappa) is then as small as 1e-19 resp. as large as e^500)
            D, corner = [(8, 1e-6), (7, 1e-6), (8, 500.0), (8, 1e-5), (2, 1e-6), (7, 3e-6)][(_VK[0] // 3) % 6]
        mean = _unit(rng, (*lead, D))
        y = rng.normal(size=(*lead, N, D)) * 10.0 ** rng.integers(-3, 4)
        if rng.random() < 0.3:     # points near the mean direction
            y = mean[..., None, :] + 0.05 * rng.normal(size=(*lead, N, D))
        kap = _kappa(rng, lead)
        if rng.random() < 0.2:
            kap = np.asarray(rng.integers(1, 60, size=lead), dtype=float)          # integer valued
        if corner is not None:
            kap = np.full(lead, corner)
        return {'fam': fam, 'mean': mean, 'concentration': kap, 'y': y}
    D = int(rng.integers(2, 7)) if D is None else D
    if fam == 'watson':
        mode = _unit(rng, (*lead, D), True)
        y = _unit(rng, (*lead, N, D), True)
        if rng.random() < 0.3:
            y = mode[..., None, :] + 0.1 * (rng.normal(size=(*lead, N, D)) + 1j * rng.normal(size=(*lead, N, D)))
            y = y / np.linalg.norm(y, axis=-1, keepdims=True)
        kap = _kappa(rng, lead)
        if rng.random() < 0.2:
            kap = np.asarray(rng.integers(1, 60, size=lead), dtype=float)
        return {'fam': fam, 'mode': mode, 'concentration': kap, 'y': y}
    a = rng.normal(size=(*lead, D, D)) + 1j * rng.normal(size=(*lead, D, D))
    _, E = np.linalg.eigh(a + np.conj(np.swapaxes(a, -1, -2)))
    if fam == 'bingham':
        kind = kind or str(rng.choice(['spread', 'mixed', 'mixed', 'cluster']))
        lo, hi = {'spread': (-0.5, 1.7), 'mixed': (-3, 1.7), 'cluster': (-3, -2.3)}[kind]
        gaps = 10.0 ** rng.uniform(lo, hi, size=(*lead, D - 1))
        gaps = np.maximum(gaps, 1.001e-3)
        lam = -np.concatenate([np.zeros((*lead, 1)), np.cumsum(gaps, axis=-1)], axis=-1)
        lam = lam + np.asarray(rng.choice([0.0, 0.0, 2.5, -30.0], size=lead + (1,)))
        lam = rng.permuted(lam, axis=-1)
        y = _unit(rng, (*lead, N, D), True)
        return {'fam': fam, 'E': E, 'lam': lam, 'y': y, 'kind': kind}
    if fam == 'cacg':
        lam = 10.0 ** rng.uniform(-8, 0, size=(*lead, D))
        lam = lam / lam.max(axis=-1, keepdims=True)
        if rng.random() < 0.4:
            lam = lam * 10.0 ** rng.uniform(-2, 2, size=lead + (1,))
        lam = np.sort(lam, axis=-1)
        if rng.random() < 0.25:
            lam = np.sort(rng.integers(1, 10, size=(*lead, D)).astype(float), axis=-1)        # integer valued eigenvalues
        y = (rng.normal(size=(*lead, N, D)) + 1j * rng.normal(size=(*lead, N, D))) * 10.0 ** rng.integers(-3, 4)
        return {'fam': fam, 'E': E, 'lam': lam, 'y': y}
    raise ValueError(fam)


# --------------------------------------------------------------------------- implementation access
def build(rp, idx=None):
    """the distribution object (of the current /repo) for a payload, optionally one leading slice"""
    fam = rp['fam']
    s = (lambda a: np.array(a[idx]) if idx is not None else np.array(a))
    if fam == 'gauss_full':
        from pb_bss.distribution.gaussian import Gaussian
        return Gaussian(mean=s(rp['mean']), covariance=s(rp['covariance']))
    if fam == 'gauss_diag':
        from pb_bss.distribution.gaussian import DiagonalGaussian
        return DiagonalGaussian(mean=s(rp['mean']), covariance=s(rp['covariance']))
    if fam == 'gauss_sph':
        from pb_bss.distribution.gaussian import SphericalGaussian
        return SphericalGaussian(mean=s(rp['mean']), covariance=s(rp['covariance']))
    if fam == 'ccsg':
        from pb_bss.distribution.complex_circular_symmetric_gaussian import ComplexCircularSymmetricGaussian
        return ComplexCircularSymmetricGaussian(covariance=s(rp['covariance']))
    if fam == 'vmf':
        from pb_bss.distribution.von_mises_fisher import VonMisesFisher
        return VonMisesFisher(mean=s(rp['mean']), concentration=s(rp['concentration']))
    if fam == 'watson':
        from pb_bss.distribution.complex_watson import ComplexWatson
        return ComplexWatson(mode=s(rp['mode']), concentration=s(rp['concentration']))
    if fam == 'bingham':
        from pb_bss.distribution.complex_bingham import ComplexBingham
        return ComplexBingham(covariance_eigenvectors=s(rp['E']), covariance_eigenvalues=s(rp['lam']))
    if fam == 'cacg':
        from pb_bss.distribution.complex_angular_central_gaussian import ComplexAngularCentralGaussian
        return ComplexAngularCentralGaussian(covariance_eigenvectors=s(rp['E']), covariance_eigenvalues=s(rp['lam']))
    raise ValueError(fam)


PARAMS = {'gauss_full': ('mean', 'covariance'), 'gauss_diag': ('mean', 'covariance'), 'gauss_sph': ('mean', 'covariance'),
          'ccsg': ('covariance',), 'vmf': ('mean', 'concentration'), 'watson': ('mode', 'concentration'),
          'bingham': ('E', 'lam'), 'cacg': ('E', 'lam')}


def lead_shape(rp):
    return tuple(rp['y'].shape[:-2])


# --------------------------------------------------------------------------- independent references
def _kummer(D, k):
    """1F1(1; D; k) = sum_m k^m / (D)_m, all terms positive"""
    t, terms, m = 1.0, [1.0], 0
    while True:
        t = t * k / (D + m)
        m += 1
        terms.append(t)
        if t < 1e-19 * terms[0] and m > k:
            break
        if m > 5000:
            break
    return math.fsum(terms)


def _log_bessel_ratio(D, k):
    """log( I_{D/2-1}(k) / k^(D/2-1) ) via the series, all terms positive"""
    nu = D / 2.0 - 1.0
    q = k * k / 4.0
    t, terms, m = 1.0, [1.0], 0
    while True:
        t = t * q / ((m + 1) * (nu + 1 + m))
        m += 1
        terms.append(t)
        if t < 1e-19 and m > k / 2:
            break
        if m > 5000:
            break
    return -nu * math.log(2.0) - math.lgamma(nu + 1.0) + math.log(math.fsum(terms))


def _kent_log(lam):
    """log of 2 pi^D sum_j exp(lam_j)/prod_{i!=j}(lam_j-lam_i), in 120-digit decimal arithmetic"""
    getcontext().prec = 120
    l = [Decimal(float(x)) for x in lam]
    mx = max(l)
    s = Decimal(0)
    for j, a in enumerate(l):
        p = Decimal(1)
        for i, b in enumerate(l):
            if i != j:
                p *= (a - b)
        s += (a - mx).exp() / p
    D = len(l)
    return float((s * 2).ln()) + D * math.log(math.pi) + float(mx)


def reference(rp, idx):
    """(reference log_pdf values for slice idx, scale of the terms) from the textbook formula; independent code path"""
    fam = rp['fam']
    y = np.asarray(rp['y'][idx])
    if fam in ('gauss_full', 'gauss_diag', 'gauss_sph'):
        from scipy.stats import multivariate_normal
        mean = np.asarray(rp['mean'][idx])
        D = mean.shape[-1]
        c = np.asarray(rp['covariance'][idx])
        cov = c if fam == 'gauss_full' else (np.diag(c) if fam == 'gauss_diag' else float(c) * np.eye(D))
        ref = np.atleast_1d(multivariate_normal(mean=mean, cov=cov, allow_singular=False).logpdf(y))
        sign, ld = np.linalg.slogdet(cov)
        w, v = np.linalg.eigh(cov)
        d = y - mean
        qf = np.sum((d @ v) ** 2 / w, axis=-1)
        ref2 = -0.5 * (D * math.log(2 * math.pi) + ld + qf)
        scale = 0.5 * (D * math.log(2 * math.pi) + abs(ld) + qf) + 1
        if np.abs(ref - ref2).max() > 10 * RTOL * scale.max():
            raise AssertionError('references disagree (scipy.stats vs eigh form): %g' % np.abs(ref - ref2).max())
        return ref, scale
    if fam == 'ccsg':
        from scipy.stats import multivariate_normal
        cov = np.asarray(rp['covariance'][idx])
        D = cov.shape[-1]
        w, v = np.linalg.eigh(cov)
        p = y @ v.conj()                      # (N, D): v^H y
        qf = np.sum(np.abs(p) ** 2 / w, axis=-1)
        ld = np.sum(np.log(w))
        ref = -D * math.log(math.pi) - ld - qf
        scale = D * math.log(math.pi) + abs(ld) + qf + 1
        # real 2D-dimensional embedding: N(0, 1/2 [[Re, -Im],[Im, Re]])
        big = 0.5 * np.block([[cov.real, -cov.imag], [cov.imag, cov.real]])
        ref2 = np.atleast_1d(multivariate_normal(mean=np.zeros(2 * D), cov=big).logpdf(np.concatenate([y.real, y.imag], -1)))
        if np.abs(ref - ref2).max() > 10 * RTOL * scale.max():
            raise AssertionError('references disagree (complex form vs real embedding): %g' % np.abs(ref - ref2).max())
        return ref, scale
    if fam == 'vmf':
        mean = np.asarray(rp['mean'][idx])
        k = float(rp['concentration'][idx])
        D = mean.shape[-1]
        x = y / np.linalg.norm(y, axis=-1, keepdims=True)
        lognorm = D / 2.0 * math.log(2 * math.pi) + _log_bessel_ratio(D, k)
        ref = k * (x @ mean) - lognorm
        scale = np.full(ref.shape, k + abs(lognorm) + 1)
        if D == 3:
            ln3 = math.log(2 * math.pi) + k + math.log1p(-math.exp(-2 * k)) - math.log(k)
            assert abs(ln3 - lognorm) < 1e-9 * (1 + k), (ln3, lognorm)
        if D == 1:
            ln1 = k + math.log1p(math.exp(-2 * k))
            assert abs(ln1 - lognorm) < 1e-9 * (1 + k), (ln1, lognorm)
        if D >= 2:
            from scipy.stats import vonmises_fisher
            ref2 = np.atleast_1d(vonmises_fisher(mean, k).logpdf(x))
            if np.abs(ref - ref2).max() > 10 * RTOL * scale.max():
                raise AssertionError('references disagree (series vs scipy.stats.vonmises_fisher): %g' % np.abs(ref - ref2).max())
        return ref, scale
    if fam == 'watson':
        mode = np.asarray(rp['mode'][idx])
        k = float(rp['concentration'][idx])
        D = mode.shape[-1]
        lognorm = math.log(2.0) + D * math.log(math.pi) - math.lgamma(D) + math.log(_kummer(D, k))
        if k >= 5:
            r = np.arange(D - 1)
            closed = (math.log(2.0) + D * math.log(math.pi) + (1 - D) * math.log(k) + k
                      + math.log1p(-sum(math.exp(rr * math.log(k) - k - math.lgamma(rr + 1)) for rr in r)))
            assert abs(closed - lognorm) < 1e-9 * (1 + k), (closed, lognorm)
        ref = k * np.abs(y @ mode.conj()) ** 2 - lognorm
        return ref, np.full(ref.shape, k + abs(lognorm) + 1)
    if fam == 'bingham':
        E = np.asarray(rp['E'][idx])
        lam = np.asarray(rp['lam'][idx])
        B = (E * lam) @ E.conj().T
        qf = np.einsum('nd,de,ne->n', y.conj(), B, y).real
        lognorm = _kent_log(lam)
        return qf - lognorm, np.abs(qf) + abs(lognorm) + np.abs(lam).max() + 1
    if fam == 'cacg':
        E = np.asarray(rp['E'][idx])
        lam = np.asarray(rp['lam'][idx])
        D = lam.shape[-1]
        B = (E * lam) @ E.conj().T
        B = (B + B.conj().T) / 2
        z = y / np.linalg.norm(y, axis=-1, keepdims=True)
        q = np.einsum('nd,dn->n', z.conj(), np.linalg.solve(B, z.T)).real
        ld = np.linalg.slogdet(B)[1]
        ref = -D * np.log(q) - ld
        return ref, D * np.abs(np.log(q)) + abs(ld) + np.sum(np.abs(np.log(lam))) + 1
    raise ValueError(fam)


# --------------------------------------------------------------------------- Coq expression for one slice
def coq_slice(rp, obj, idx, out):
    fam = rp['fam']
    y = np.asarray(rp['y'][idx])
    imp = np.asarray(out[idx], dtype=float).reshape(-1)
    D = y.shape[-1]
    if fam == 'gauss_full':
        return 'check_gauss_full %d %s %s %s %s %s' % (
            D, core.flist(rp['mean'][idx]), core.fmat(np.asarray(obj.precision_cholesky)[idx]),
            core.fhex(np.asarray(obj.log_det_precision_cholesky)[idx]), core.fmat(y), core.flist(imp))
    if fam == 'gauss_diag':
        return 'check_gauss_diag %d %s %s %s %s %s' % (
            D, core.flist(rp['mean'][idx]), core.flist(rp['covariance'][idx]),
            core.fhex(np.asarray(obj.log_det_precision_cholesky)[idx]), core.fmat(y), core.flist(imp))
    if fam == 'gauss_sph':
        return 'check_gauss_sph %d %s %s %s %s %s' % (
            D, core.flist(rp['mean'][idx]), core.fhex(rp['covariance'][idx]),
            core.fhex(np.asarray(obj.log_det_precision_cholesky)[idx]), core.fmat(y), core.flist(imp))
    if fam == 'ccsg':
        cov = np.asarray(rp['covariance'][idx])
        sol = np.linalg.solve(cov, y.T).T
        lad = np.linalg.slogdet(cov)[1]
        return 'check_ccsg %d %s %s %s %s' % (D, core.fhex(lad), core.cmat(y), core.cmat(sol), core.flist(imp))
    if fam == 'vmf':
        from scipy.special import ive
        k = float(rp['concentration'][idx])
        nser = int(k / 2 + 6 * math.sqrt(k) + 40)
        return 'check_vmf %d %s %s %s %d %s %s' % (
            D, core.flist(rp['mean'][idx]), core.fhex(k), core.fhex(ive(D / 2 - 1, k)), nser, core.fmat(y), core.flist(imp))
    if fam == 'watson':
        from scipy.special import hyp1f1
        k = float(rp['concentration'][idx])
        nser = int(k + 9 * math.sqrt(k) + 40)
        return 'check_watson %d %s %s %s %d %s %s' % (
            D, core.clist(rp['mode'][idx]), core.fhex(k), core.fhex(hyp1f1(1, D, k)), nser, core.cmat(y), core.flist(imp))
    if fam == 'bingham':
        nm = np.asarray(obj.norm())[idx]
        return 'check_bingham %d %s %s %s %s %s %s' % (
            D, core.cmat(rp['E'][idx]), core.flist(rp['lam'][idx]), core.fhex(1e-8), core.fhex(nm), core.cmat(y), core.flist(imp))
    if fam == 'cacg':
        return 'check_cacg %d %s %s %s %s' % (D, core.cmat(rp['E'][idx]), core.flist(rp['lam'][idx]), core.cmat(y), core.flist(imp))
    raise ValueError(fam)


def contracts(rp, obj, idx):
    """residuals of the oracle contracts the theorems assume; text when one fails"""
    fam = rp['fam']
    if fam == 'gauss_full':
        cov = np.asarray(rp['covariance'][idx])
        P = np.asarray(obj.precision_cholesky)[idx]
        D = cov.shape[-1]
        cond = np.linalg.cond(cov)
        r = np.abs(P @ P.T @ cov - np.eye(D)).max()
        if r > 1e-13 * cond * D + 1e-12:
            return 'precision Cholesky contract P P^T Sigma = I violated: residual %.3g (cond %.3g)' % (r, cond)
        ld = np.asarray(obj.log_det_precision_cholesky)[idx]
        ref = -0.5 * np.linalg.slogdet(cov)[1]
        if abs(ld - ref) > 1e-9 * (1 + np.abs(np.log(np.abs(np.diag(P)))).sum()):
            return 'log det contract violated: %r vs -1/2 log det Sigma = %r' % (ld, ref)
    if fam in ('bingham', 'cacg'):
        E = np.asarray(rp['E'][idx])
        r = np.abs(E.conj().T @ E - np.eye(E.shape[-1])).max()
        if r > 1e-12:
            return 'eigenvectors not unitary: %.3g' % r
    if fam == 'ccsg':
        cov = np.asarray(rp['covariance'][idx])
        y = np.asarray(rp['y'][idx])
        sol = np.linalg.solve(cov, y.T).T
        r = np.abs(sol @ cov.T - y).max()
        if r > (1e-13 * np.linalg.cond(cov) + 1e-12) * (np.abs(y).max() + 1e-300):
            return 'solve residual %.3g' % r
        w = np.linalg.eigvalsh(cov)
        if abs(np.linalg.slogdet(cov)[1] - np.log(w).sum()) > 1e-8 * (1 + np.abs(np.log(w)).sum()):
            return 'slogdet differs from the sum of log eigenvalues'
    return None


# --------------------------------------------------------------------------- evaluation of one payload
def input_class(rp, idx):
    if rp['fam'] == 'bingham':
        lam = np.sort(np.asarray(rp['lam'][idx]))
        D = lam.shape[-1]
        close = max((int(np.sum((lam >= lam[i]) & (lam <= lam[i] + 0.1))) for i in range(D)), default=1)
        return 'cluster' if close >= 4 else 'separated'
    return 'any'


def evaluate(rp, rng=None):
    """run the implementation on a payload; returns (pred_fail, key, coq_expr, raised)"""
    fam = rp['fam']
    lead = lead_shape(rp)
    arrays = {k: np.array(rp[k]) for k in PARAMS[fam] + ('y',)}
    for a in arrays.values():
        a.setflags(write=False)
    before = {k: a.tobytes() for k, a in arrays.items()}
    rp = dict(rp, **arrays)
    try:
        obj = build(rp)
        fields_before = {k: np.array(getattr(obj, k)).tobytes() for k in obj.__dataclass_fields__}
        out = np.asarray(obj.log_pdf(arrays['y'] if fam != 'bingham' else np.array(arrays['y'])))
    except Exception as e:
        return ('%s.log_pdf raised %s: %s on valid parameters (leading shape %s)' % (fam, type(e).__name__, str(e)[:200], lead),
                '%s:raises:%s' % (fam, type(e).__name__), None, None)
    for k, a in arrays.items():
        if a.tobytes() != before[k]:
            return 'caller array %r modified by %s.log_pdf' % (k, fam), '%s:mutates' % fam, None, None
    for k in obj.__dataclass_fields__:
        if np.array(getattr(obj, k)).tobytes() != fields_before[k]:
            return 'stored parameter %r modified by %s.log_pdf' % (k, fam), '%s:mutates-field' % fam, None, None
    N = arrays['y'].shape[-2]
    if out.shape != (*lead, N):
        return ('log_pdf shape %s, expected leading shape + points = %s' % (out.shape, (*lead, N)),
                '%s:shape' % fam, None, None)
    idxs = list(np.ndindex(*lead))
    coq_idx = idxs if len(idxs) <= 2 else [idxs[int(i)] for i in (rng.choice(len(idxs), 2, replace=False)
                                                                    if rng is not None else (0, len(idxs) - 1))]
    coq = 'allR [' + '; '.join(coq_slice(rp, obj, ix, out) for ix in coq_idx) + ']'
    if not np.all(np.isfinite(out)):
        return 'non-finite log_pdf values', '%s:nonfinite' % fam, coq, None
    for ix in idxs:
        c = contracts(rp, obj, ix)
        if c:
            return c, '%s:contract' % fam, coq, None
        ref, scale = reference(rp, ix)
        dev = np.abs(out[ix] - ref)
        if np.any(dev > RTOL * scale):
            j = int(np.argmax(dev / scale))
            return ('%s.log_pdf differs from the log of the textbook density at leading index %s point %d: %r vs %r '
                    '(deviation %.3g, scale %.3g)' % (fam, ix, j, float(out[ix][j]), float(ref[j]), dev[j], scale[j]),
                    '%s:formula:%s' % (fam, input_class(rp, ix)), coq, None)
    if hasattr(type(obj), 'pdf'):
        try:
            pdf = np.asarray(obj.pdf(np.array(arrays['y'])))
        except Exception as e:
            return '%s.pdf raised %s: %s' % (fam, type(e).__name__, str(e)[:200]), '%s:pdf:raises' % fam, coq, None
        if pdf.shape != out.shape or np.any(np.abs(pdf - np.exp(out)) > 1e-12 * np.exp(out)):
            return '%s.pdf differs from exp(log_pdf)' % fam, '%s:pdf' % fam, coq, None
    # the density is a function of the parameter VALUES: other memory layouts and, where every entry is an integer,
    # integer typed parameter arrays (e.g. eigenvalues [1, 2, 4] typed by hand or loaded from JSON) give the same values
    names = [k for k in PARAMS[fam]]

    def again(*params):
        o2 = build(dict(rp, **dict(zip(names, params))))
        return np.asarray(o2.log_pdf(np.array(arrays['y'])))
    cv = core.container_variants(again, [arrays[k] for k in names], out,
                                 lambda r_, e: np.shape(r_) == np.shape(e) and np.all(np.abs(r_ - e) <= 1e-9 * (1 + np.abs(e))),
                                 which=('layout',), recast_allow=('int',),
                                 recast_args=[i for i, k in enumerate(names) if k in ('lam', 'concentration', 'covariance')])
    if cv:
        return '%s.log_pdf: %s' % (fam, cv), '%s:container' % fam, coq, None
    if lead:
        for ix in (idxs[:3] if len(idxs) > 3 else idxs):
            one = np.asarray(build(rp, ix).log_pdf(np.array(arrays['y'][ix])))
            one = one.reshape(-1)
            if one.shape != (N,) or np.abs(one - out[ix]).max() > 1e-9 * (1 + np.abs(out[ix]).max()):
                return ('slice %s of the stacked object differs from the per-slice object: %r vs %r'
                        % (ix, out[ix].tolist(), one.tolist()), '%s:slices' % fam, coq, None)
    return None, None, coq, None


REPARAM_FAMS = ('ccsg', 'vmf', 'watson', 'bingham', 'cacg')     # no derived fields computed at construction time
ATTR = {'E': 'covariance_eigenvectors', 'lam': 'covariance_eigenvalues'}


def make_reparam_case(rng, fam):
    """multi-step sequence on ONE object: evaluate, assign new parameters to the stored fields, evaluate again; the second
    result must be the log-density at the parameters stored NOW (equal to a fresh object's)"""
    a = gen(rng, fam, 'quick')
    b = None
    for _ in range(3000):
        c = gen(rng, fam, 'quick')
        if all(np.shape(a[k]) == np.shape(c[k]) for k in PARAMS[fam]):
            b = c
            break
    if b is None:
        b = {k: (np.array(v)[..., ::-1].copy() if k in PARAMS[fam] and np.ndim(v) == 0 else np.array(v)) for k, v in a.items()}
        for k in PARAMS[fam]:
            if k in ('concentration',):
                b[k] = np.array(a[k]) * 0.5 + 1.0
            if k == 'lam':
                b[k] = np.array(a[k]) * 0.5
            if k == 'covariance':
                b[k] = np.array(a[k]) * 3.0
    rp = {'fam': fam, 'reparam': True, 'a': a, 'b': b, 'inplace': bool(rng.random() < 0.5)}
    fail, key = evaluate_reparam(rp)
    name = 'C07 %s re-parametrised object (%s)' % (fam, 'in-place update' if rp['inplace'] else 'attribute assignment')
    return Case(name, coq=None, pred_fail=fail, key=key, nontrivial=True, digest_=core.digest(name, *[a[k] for k in PARAMS[fam]], *[b[k] for k in PARAMS[fam]]),
                sample={'name': name}, replay=rp, kind='reparam/' + fam)


def evaluate_reparam(rp):
    fam = rp['fam']
    a = {k: np.array(v) for k, v in rp['a'].items() if k in PARAMS[fam] + ('y',)}
    b = {k: np.array(v) for k, v in rp['b'].items() if k in PARAMS[fam] + ('y',)}
    try:
        obj = build(dict(rp['a'], **a))
        first = np.asarray(obj.log_pdf(np.array(a['y'])))
        for k in PARAMS[fam]:
            attr = ATTR.get(k, k)
            if rp.get('inplace') and np.shape(getattr(obj, attr)) == np.shape(b[k]):
                getattr(obj, attr)[...] = b[k]
            else:
                setattr(obj, attr, np.array(b[k]))
        second = np.asarray(obj.log_pdf(np.array(a['y'])))
        fresh = np.asarray(build(dict(rp['b'], **b)).log_pdf(np.array(a['y'])))
    except Exception as e:
        return '%s: re-parametrised object raised %s: %s' % (fam, type(e).__name__, str(e)[:200]), '%s:reparam:raises' % fam
    if second.shape != fresh.shape or np.any(np.abs(second - fresh) > 1e-9 * (1 + np.abs(fresh))):
        return ('%s.log_pdf after re-parametrising the object is not the log-density at the stored parameters: %r vs fresh object %r'
                % (fam, second.ravel()[:3].tolist(), fresh.ravel()[:3].tolist())), '%s:reparam:stale' % fam
    return None, None


def nontrivial(rp):
    fam = rp['fam']
    D = rp['y'].shape[-1]
    if D < 2:
        return False
    if fam == 'gauss_full' or fam == 'ccsg':
        c = np.asarray(rp['covariance'])
        off = np.abs(c - c * np.eye(D)).max()
        return bool(off > 1e-6 * np.abs(c).max())
    return True


def make_case(rng, fam, tier, **kw):
    rp = gen(rng, fam, tier, **kw)
    fail, key, coq, raised = evaluate(rp, rng)
    lead = lead_shape(rp)
    D = rp['y'].shape[-1]
    name = '%s D=%d lead=%s N=%d%s' % (fam, D, list(lead), rp['y'].shape[-2], (' ' + rp['kind']) if 'kind' in rp else '')
    sample = {'name': name}
    for k in PARAMS[fam] + ('y',):
        sample[k] = core.small(np.asarray(rp[k]), 3)
    return Case(name, coq=coq, pred_fail=fail, key=key, nontrivial=nontrivial(rp),
                digest_=core.digest(fam, *[np.asarray(rp[k]) for k in PARAMS[fam] + ('y',)]),
                sample=sample, replay=rp, raised=raised, kind=fam + (':' + rp['kind'] if 'kind' in rp else ''))


# --------------------------------------------------------------------------- "integrates to one" by quadrature
def _gl(n, a, b):
    x, w = np.polynomial.legendre.leggauss(n)
    return 0.5 * (b - a) * x + 0.5 * (b + a), 0.5 * (b - a) * w


def _gl_ends(a, b, n=40, decades=12):
    """composite Gauss-Legendre on [a, b] with panels shrinking geometrically towards both ends
    (resolves peaks of width down to 1e-12 (b-a) at either end, wherever the parameters put them)"""
    br = [0.0] + [10.0 ** (-k) for k in range(decades, 0, -1)] + [0.5] + [1 - 10.0 ** (-k) for k in range(1, decades + 1)] + [1.0]
    xs, ws = [], []
    for lo, hi in zip(br[:-1], br[1:]):
        x, w = _gl(n, a + (b - a) * lo, a + (b - a) * hi)
        xs.append(x)
        ws.append(w)
    return np.concatenate(xs), np.concatenate(ws)


def _rotation_to(mu):
    """orthogonal matrix whose last column is mu (real unit vector)"""
    D = mu.shape[0]
    a = np.eye(D)
    a[:, -1] = mu
    q, _ = np.linalg.qr(a[:, ::-1])
    q = q[:, ::-1]
    if q[:, -1] @ mu < 0:
        q[:, -1] = -q[:, -1]
    return q


def gen_integral(rng, fam):
    """payload with one distribution (no leading axis) of small dimension"""
    EXTREME_SCALES[0] = False
    try:
        return _gen_integral(rng, fam)
    finally:
        EXTREME_SCALES[0] = True


def _gen_integral(rng, fam):
    if fam in ('gauss_full', 'gauss_diag', 'gauss_sph'):
        D = int(rng.integers(1, 3))
        rp = gen(rng, fam, 'quick')
        while lead_shape(rp) != () or rp['y'].shape[-1] != D:
            rp = gen(rng, fam, 'quick')
        if fam == 'gauss_full':       # keep the grid affordable: condition <= 1e4 handled by whitening anyway
            pass
        return rp
    rp = gen(rng, fam, 'quick')
    want = {'ccsg': (1,), 'vmf': (2, 3), 'watson': (2,), 'bingham': (2,), 'cacg': (2,)}[fam]
    while lead_shape(rp) != () or rp['y'].shape[-1] not in want:
        rp = gen(rng, fam, 'quick')
    return rp


def integral(rp):
    """(numerical integral of exp(log_pdf) over the support, expected value)"""
    fam = rp['fam']
    obj = build(rp)
    D = rp['y'].shape[-1]
    if fam in ('gauss_full', 'gauss_diag', 'gauss_sph'):
        mean = np.asarray(rp['mean'])
        c = np.asarray(rp['covariance'])
        cov = c if fam == 'gauss_full' else (np.diag(c) if fam == 'gauss_diag' else float(c) * np.eye(D))
        L = np.linalg.cholesky(cov)
        u, w = _gl(160, -9.0, 9.0)
        if D == 1:
            pts = mean + u[:, None] * L[0, 0]
            val = np.exp(obj.log_pdf(pts)).reshape(-1)
            return float(np.sum(val * w) * L[0, 0]), 1.0
        U = np.stack(np.meshgrid(u, u, indexing='ij'), -1).reshape(-1, 2)
        W = (w[:, None] * w[None, :]).reshape(-1)
        pts = mean + U @ L.T
        val = np.exp(obj.log_pdf(pts)).reshape(-1)
        return float(np.sum(val * W) * abs(np.linalg.det(L))), 1.0
    if fam == 'ccsg':                          # D = 1: the complex plane
        s = math.sqrt(float(np.asarray(rp['covariance']).real.reshape(-1)[0]))
        u, w = _gl(120, -7.0 * s, 7.0 * s)
        Z = (u[:, None] + 1j * u[None, :]).reshape(-1, 1)
        W = (w[:, None] * w[None, :]).reshape(-1)
        return float(np.sum(np.exp(obj.log_pdf(Z)).reshape(-1) * W)), 1.0
    if fam == 'vmf':
        mu = np.asarray(rp['mean'])
        R = _rotation_to(mu)
        if D == 2:
            th = 2 * np.pi * (np.arange(8192) + 0.5) / 8192
            pts = np.stack([np.sin(th), np.cos(th)], -1) @ R.T
            return float(np.sum(np.exp(obj.log_pdf(pts))) * 2 * np.pi / 8192), 1.0
        t, w = _gl_ends(-1.0, 1.0)               # cos(polar angle) about the mean direction
        ph = 2 * np.pi * (np.arange(16) + 0.5) / 16
        st = np.sqrt(1 - t ** 2)
        g = np.stack([st[:, None] * np.cos(ph)[None, :], st[:, None] * np.sin(ph)[None, :],
                      np.broadcast_to(t[:, None], (t.size, ph.size))], -1).reshape(-1, 3)
        val = np.exp(obj.log_pdf(g @ R.T)).reshape(t.size, ph.size)
        return float(np.sum(val * w[:, None]) * 2 * np.pi / ph.size), 1.0
    # complex unit sphere of C^2: z = U (sqrt(t) e^{i a}, sqrt(1-t) e^{i b}),  dS = 1/2 dt da db,  area 2 pi^2
    if fam == 'watson':
        m = np.asarray(rp['mode'])
        U = np.stack([m, np.array([-np.conj(m[1]), np.conj(m[0])])], -1)
    else:
        U = np.asarray(rp['E'])
    t, w = _gl_ends(0.0, 1.0)
    a = 2 * np.pi * (np.arange(6) + 0.5) / 6
    T, A, Bb = np.meshgrid(t, a, a, indexing='ij')
    g = np.stack([np.sqrt(T) * np.exp(1j * A), np.sqrt(1 - T) * np.exp(1j * Bb)], -1).reshape(-1, 2)
    val = np.exp(obj.log_pdf(g @ U.T)).reshape(t.size, a.size, a.size)
    integ = float(np.sum(val * w[:, None, None]) * 0.5 * (2 * np.pi / a.size) ** 2)
    return integ, (2 * np.pi ** 2 if fam == 'cacg' else 1.0)


def make_integral_case(rng, fam):
    rp = gen_integral(rng, fam)
    rp = dict(rp, integral=True)
    fail, key = evaluate_integral(rp)
    name = 'int:%s D=%d' % (fam, rp['y'].shape[-1])
    return Case(name, coq=None, pred_fail=fail, key=key, nontrivial=True,
                digest_=core.digest('int', fam, *[np.asarray(rp[k]) for k in PARAMS[fam]]),
                sample=None, replay=rp, kind='int:' + fam)


def evaluate_integral(rp):
    fam = rp['fam']
    try:
        got, want = integral(rp)
    except Exception as e:
        return 'quadrature of exp(log_pdf) raised %s: %s' % (type(e).__name__, str(e)[:200]), '%s:integral:raises' % fam
    if not np.isfinite(got) or abs(got - want) > 1e-7 * want:
        return ('exp(%s.log_pdf) integrates to %r over its support, expected %r' % (fam, got, want), '%s:integral' % fam)
    return None, None


# --------------------------------------------------------------------------- driver interface
FAMS = ['gauss_full', 'gauss_diag', 'gauss_sph', 'ccsg', 'vmf', 'watson', 'bingham', 'cacg']


def cases(rng, tier):
    per = 12 if tier == 'quick' else 110
    out = []
    for fam in FAMS:
        for _ in range(per + (6 if fam in ('gauss_full', 'bingham') and tier != 'quick' else 0)):
            out.append(make_case(rng, fam, tier))
    # the worst-conditioned corner of the Bingham domain: all gaps close to 1e-3, D = 5, 6
    for i in range(4 if tier == 'quick' else 24):
        out.append(make_case(rng, 'bingham', tier, D=5 + i % 2, kind='cluster'))
    for fam in FAMS:
        for _ in range(1 if tier == 'quick' else 8):
            out.append(make_integral_case(rng, fam))
    for fam in REPARAM_FAMS:
        for _ in range(2 if tier == 'quick' else 12):
            out.append(make_reparam_case(rng, fam))
    # covariances whose determinant leaves the binary64 range in either direction (log det is an ordinary number)
    for i in range(4 if tier == 'quick' else 24):
        EXTREME_SCALES[0] = 'force+' if i % 2 else 'force-'
        try:
            out.append(make_case(rng, ['ccsg', 'gauss_full'][(i // 2) % 2], tier))
        finally:
            EXTREME_SCALES[0] = True
    return out


def search(rng, tier, hints):
    """after a break: look for a concrete input on which the property's own predicates fail"""
    fams = [f for f in FAMS if any(f in str(h) for h in hints)] or FAMS
    out = []
    for i in range(600 if tier == 'quick' else 4000):
        fam = fams[i % len(fams)]
        c = make_case(rng, fam, 'thorough') if i % 7 else make_integral_case(rng, fam)
        if c.pred_fail:
            out.append(c)
            break
    return out


def replay(payload):
    rp = payload['replay']
    if rp.get('integral'):
        return evaluate_integral(rp)[0]
    if rp.get('reparam'):
        return evaluate_reparam(rp)[0]
    return evaluate(rp)[0]
