"""C11 -- MVDR, LCMV and Wiener beamformers satisfy their constraints and optimality
(get_mvdr_vector, get_lcmv_vector, get_mvdr_vector_souden, get_wmwf_vector,
get_optimal_reference_channel; pb_bss/extraction/beamformer.py, pb_bss/math/solve.py).

Correspondence: per (leading index, bin) the implementation's vector against Model/Beamformer.v on
PrimFloat.  The LAPACK leaves are oracles: the harness calls the same routine on the same operands
(np.linalg.solve on the symmetrised noise PSD, stable_solve), Coq evaluates the contract residual
(A x = b, Pn phi = Px) and the model's composition of the oracle result.
Predicates (independent NumPy, no library code): w^H a = 1, optimality against sampled distortionless
competitors and the independently computed optimum, LCMV constraints, Souden / WMWF rank-one
identities, scale invariances, WMWF(mu=0) = Souden, arg-max of the SNR criterion, stack == stack of
slices, inputs unmodified."""
import numpy as np
from harness import core
from harness.core import Case

PID = 'C11'
REQUIRES = ['Run.C11']
RULE = ('Hermitian PD noise PSDs with condition number 1..1e6 (log-uniform) and scale 1e-3..1e3, D 2..8, '
        'F 1..32, K 1..3, mu in [0,100], every reference channel, auto reference; steering vectors with 0..2 '
        'extra leading axes; non-trivial: D>=2, complex data with non-zero imaginary parts, PSD not diagonal; '
        'distinct by SHA-1 of inputs and options')
NOT_PROVED = ('binary64 rounding (tolerance 2^-30 relative to the largest entry; LCMV 2^-20 because the code casts the '
              'response to complex64); the solve routines are oracles (contract residual evaluated per case); '
              'trace(Pn^-1 Px) real for general Hermitian Px is assumed in wmwf_mu0_is_souden (proved for rank one)')
ASSUMPTIONS = ['eps default np.finfo(complex128).tiny is read from NumPy and fed to the model',
               'get_lcmv_vector: real responses exactly representable in float32 (docstring usage)']
SHARD = 12

TINY = float(np.finfo(np.complex128).tiny)


# ----------------------------------------------------------------------------- generators
def herm(x):
    return np.conj(np.swapaxes(x, -1, -2))


def crandn(rng, *shape):
    return rng.normal(size=shape) + 1j * rng.normal(size=shape)


def rand_hpd(rng, lead, D, scale=None, max_cond=1e6):
    """Hermitian positive definite, condition number log-uniform in [1, max_cond]"""
    lead = tuple(lead)
    q, _ = np.linalg.qr(crandn(rng, *lead, D, D))
    cond = 10.0 ** (rng.random(lead) * np.log10(max_cond))
    ev = np.empty(lead + (D,))
    ev[..., 0] = 1.0
    ev[..., -1] = 1.0 / cond
    if D > 2:
        ev[..., 1:-1] = np.exp(-rng.random(lead + (D - 2,)) * np.log(cond)[..., None])
    if scale is None:
        scale = 10.0 ** rng.integers(-3, 4)
        if rng.random() < 0.25:
            # the absolute level of a PSD is free in the property (only the condition number is bounded):
            # levels near machine epsilon expose absolute regularisation constants
            scale = float(rng.choice([1e-18, 1e-12, 1e9, 1e15]))
    A = (q * ev[..., None, :]) @ herm(q) * scale
    return 0.5 * (A + herm(A))


def rank1_psd(rng, lead, D, scale):
    a = crandn(rng, *lead, D)
    sigma = (0.1 + rng.random(tuple(lead))) * scale
    Px = sigma[..., None, None] * a[..., :, None] * a[..., None, :].conj()
    return 0.5 * (Px + herm(Px)), a, sigma


def pick_bins(rng, idxs, n=3):
    if rng is not None and len(idxs) > n:
        sel = rng.choice(len(idxs), n, replace=False)
        return [idxs[int(i)] for i in sel]
    return idxs[:n]


def cten3(a):
    return '[' + '; '.join(core.cmat(m) for m in a) + ']'


def relerr(a, b):
    s = max(np.abs(b).max(), np.abs(a).max(), 1e-300)
    return np.abs(a - b).max() / s


def frozen(*arrs):
    out = []
    for a in arrs:
        a = np.array(a)
        a.setflags(write=False)
        out.append(a)
    return out


# ----------------------------------------------------------------------------- MVDR
_RCOUNT = [0]


def make_mvdr(rng, tier, idx):
    big = tier == 'thorough'
    D = int(rng.integers(2, 9))
    layout = str(rng.choice(['single', 'bins', 'bins', 'sources', 'sources', 'lead2']))
    F = 1 if layout == 'single' else int(rng.integers(1, 33 if big else 17))
    K = int(rng.integers(1, 4))
    Pn = rand_hpd(rng, (F,), D)
    if rng.random() < 0.3:   # not exactly Hermitian: the code symmetrises
        Z = crandn(rng, F, D, D)
        Pn = Pn + 1e-2 * np.abs(Pn).max() * 0.5 * (Z - herm(Z))   # anti-Hermitian part: removed by the symmetrisation
    if layout == 'single':
        a, Pn = crandn(rng, D), Pn[0]
    elif layout == 'bins':
        a = crandn(rng, F, D)
    elif layout == 'sources':
        a = crandn(rng, K, F, D)
    else:
        a = crandn(rng, int(rng.integers(1, 3)), K, F, D)
    a = a * 10.0 ** rng.integers(-2, 3)
    _RCOUNT[0] += 1
    if _RCOUNT[0] % 4 == 0:
        # a real-valued look direction handed over as a REAL array (e.g. np.ones(D): broadside / delay-compensated steering)
        a = np.ascontiguousarray(a.real) if _RCOUNT[0] % 8 == 0 else np.ones(a.shape)
    rp = {'fn': 'mvdr', 'a': a, 'Pn': Pn, 'layout': layout, 'probe_seed': int(rng.integers(1 << 30))}
    fail, key, coq, raised = eval_mvdr(rp, rng)
    name = 'mvdr %s a%s Pn%s' % (layout, a.shape, Pn.shape)
    return Case(name, coq=coq, pred_fail=fail, key=key, nontrivial=True, digest_=core.digest(a, Pn),
                sample={'name': name, 'a': core.small(a, 3)}, replay=rp, raised=raised, kind='mvdr/' + layout)


def eval_mvdr(rp, rng=None):
    from pb_bss.extraction.beamformer import get_mvdr_vector
    a, Pn = frozen(rp['a'], rp['Pn'])
    layout = rp['layout']
    cls = 'single' if layout == 'single' else 'stacked'
    ab, pb = a.tobytes(), Pn.tobytes()
    try:
        w = get_mvdr_vector(a, Pn)
    except Exception as e:
        return ('get_mvdr_vector raised %s: %s for atf %s, noise PSD %s (documented shapes (..., bins, sensors) / '
                '(bins, sensors, sensors))' % (type(e).__name__, str(e)[:160], a.shape, Pn.shape),
                'mvdr:raises:%s:%s' % (cls, type(e).__name__), None, None)
    if a.tobytes() != ab or Pn.tobytes() != pb:
        return 'caller array modified', 'mvdr:mutates', None, None
    if w.shape != a.shape:
        return ('get_mvdr_vector returned shape %s for atf %s (documented: (..., bins, sensors))' % (w.shape, a.shape),
                'mvdr:shape:%s' % cls, None, None)
    if not np.all(np.isfinite(w)):
        return 'non-finite MVDR vector for a positive definite noise PSD', 'mvdr:nonfinite', None, None
    D = a.shape[-1]
    S = 0.5 * (Pn + herm(Pn))
    Sb = S if layout != 'single' else S[None]
    ac = a if layout != 'single' else a[None]
    wc = w if layout != 'single' else w[None]
    # distortionless
    g = np.einsum('...d,...d->...', wc.conj(), ac)
    if np.abs(g - 1).max() > 1e-9:
        return 'w^H a = %s, not 1' % g.ravel()[np.abs(g - 1).argmax()], 'mvdr:distortionless:%s' % cls, _coq_mvdr(ac, Sb, wc, Pn, layout, rng), None
    # optimality against sampled distortionless competitors
    prng = np.random.default_rng(rp['probe_seed'])
    pw = np.einsum('...a,...ab,...b->...', wc.conj(), Sb, wc).real
    best = np.linalg.solve(np.broadcast_to(Sb, ac.shape[:-1] + (D, D)), ac[..., None])[..., 0]
    best = best / np.einsum('...d,...d->...', ac.conj(), best)[..., None]
    comps = [best]
    # first-order rounding term of the comparison grows with the condition number of the noise PSD
    otol = 1e-9 + 1e-11 * np.broadcast_to(np.linalg.cond(Sb), pw.shape)
    for t in (1e-3, 1e-1, 1.0):
        z = crandn(prng, *ac.shape)
        d = z - ac * (np.einsum('...d,...d->...', ac.conj(), z) / np.einsum('...d,...d->...', ac.conj(), ac).real)[..., None]
        d *= (t * np.linalg.norm(wc, axis=-1) / np.maximum(np.linalg.norm(d, axis=-1), 1e-300))[..., None]
        comps += [wc + d, wc - d]
    for v in comps:
        assert np.abs(np.einsum('...d,...d->...', v.conj(), ac) - 1).max() < 1e-6
        pv = np.einsum('...a,...ab,...b->...', v.conj(), Sb, v).real
        if (pv < pw * (1 - otol)).any():
            i = int(np.argmax(pw - pv))
            return ('a distortionless competitor has smaller noise power: %.6g < %.6g' % (pv.ravel()[i], pw.ravel()[i]),
                    'mvdr:optimal:%s' % cls, _coq_mvdr(ac, Sb, wc, Pn, layout, rng), None)
    # stack == stack of slices (single-bin calls)
    if layout != 'single':
        lead = ac.shape[:-1]
        for ix in pick_bins(prng, list(np.ndindex(*lead)), 4):
            try:
                ws = get_mvdr_vector(ac[ix], Pn[ix[-1]])
            except Exception as e:
                return 'single-bin call raised %s' % type(e).__name__, 'mvdr:raises:single:%s' % type(e).__name__, None, None
            if relerr(ws, wc[ix]) > 1e-9:
                return 'stacked result differs from the per-bin result at %s' % (ix,), 'mvdr:stack', None, None
    f = core.container_variants(lambda a_, p_: get_mvdr_vector(a_, p_), [a, Pn], w,
                                lambda r, e: np.shape(r) == np.shape(e) and relerr(np.asarray(r), e) <= 1e-9 * (1 + np.linalg.cond(Sb).max() * 1e-4))
    if f:
        return 'get_mvdr_vector: ' + f, 'mvdr:container', None, None
    return None, None, _coq_mvdr(ac, Sb, wc, Pn, layout, rng), None


def _coq_mvdr(ac, Sb, wc, Pn, layout, rng):
    lead = ac.shape[:-1]
    D = ac.shape[-1]
    Pb = Pn if layout != 'single' else Pn[None]
    parts = []
    for ix in pick_bins(rng, list(np.ndindex(*lead))):
        f = ix[-1]
        x = np.linalg.solve(Sb[f], ac[ix])          # the oracle: same routine, same operands as the code
        parts.append('check_mvdr %d %s %s %s %s' % (D, core.cmat(Pb[f]), core.clist(ac[ix]), core.clist(x),
                                                    core.clist(wc[ix])))
    return 'allR [' + '; '.join(parts) + ']'


# ----------------------------------------------------------------------------- LCMV
def make_lcmv(rng, tier, idx):
    big = tier == 'thorough'
    D = int(rng.integers(2, 9))
    K = int(rng.integers(1, min(3, D) + 1))
    F = int(rng.integers(1, 33 if big else 13))
    Pn = rand_hpd(rng, (F,), D, max_cond=1e4)
    a = crandn(rng, K, F, D)
    r = rng.choice([0.0, 1.0, 1.0, 0.5, 0.25, 2.0, -1.0], K)
    if rng.random() < 0.5:
        r = np.eye(K)[int(rng.integers(0, K))]
    rp = {'fn': 'lcmv', 'a': a, 'Pn': Pn, 'r': r, 'as_list': bool(rng.random() < 0.3)}
    fail, key, coq, raised = eval_lcmv(rp, rng)
    name = 'lcmv K=%d F=%d D=%d r=%s' % (K, F, D, list(r))
    return Case(name, coq=coq, pred_fail=fail, key=key, nontrivial=K >= 1 and D >= 2, digest_=core.digest(a, Pn, r),
                sample={'name': name, 'a': core.small(a, 3)}, replay=rp, raised=raised, kind='lcmv/K%d' % K)


def eval_lcmv(rp, rng=None):
    from pb_bss.extraction.beamformer import get_lcmv_vector
    from pb_bss.math.solve import stable_solve
    a, Pn, r = frozen(rp['a'], rp['Pn'], rp['r'])
    K, F, D = a.shape
    ab, pb = a.tobytes(), Pn.tobytes()
    try:
        w = get_lcmv_vector(a, list(r) if rp.get('as_list') else r, Pn)
    except Exception as e:
        return 'get_lcmv_vector raised %s: %s' % (type(e).__name__, str(e)[:160]), 'lcmv:raises:%s' % type(e).__name__, None, None
    if a.tobytes() != ab or Pn.tobytes() != pb:
        return 'caller array modified', 'lcmv:mutates', None, None
    if w.shape != (F, D) or not np.all(np.isfinite(w)):
        return 'result shape %s / non-finite' % (w.shape,), 'lcmv:shape', None, None
    g = np.einsum('fd,kfd->kf', w.conj(), a)
    if np.abs(g - r[:, None]).max() > 1e-5 * max(1.0, np.abs(r).max()):
        return 'constraint w^H a_k = r_k violated: max dev %.3g' % np.abs(g - r[:, None]).max(), 'lcmv:constraint', None, None
    # oracle results, as the code obtains them
    X = np.squeeze(stable_solve(np.broadcast_to(Pn[None], (K, F, D, D)), a[..., None]), -1)
    G = np.einsum('kfd,Kfd->fkK', a.conj(), X)
    rc = np.repeat(r[None, :, None].astype(np.complex64), F, axis=0)
    t = np.squeeze(stable_solve(G, rc), -1)
    fv = core.container_variants(lambda a_, p_: get_lcmv_vector(a_, list(r) if rp.get('as_list') else r, p_), [a, Pn], w,
                                 lambda r_, e: np.shape(r_) == np.shape(e) and relerr(np.asarray(r_), e) <= 1e-6)
    if fv:
        return 'get_lcmv_vector: ' + fv, 'lcmv:container', None, None
    parts = []
    for f in pick_bins(rng, list(range(F))):
        parts.append('check_lcmv %d %d %s %s %s %s %s %s' % (
            D, K, core.cmat(Pn[f]), core.cmat(a[:, f]), core.cmat(X[:, f]), core.clist(t[f]),
            core.clist(rc[f, :, 0].astype(np.complex128)), core.clist(w[f])))
    return None, None, 'allR [' + '; '.join(parts) + ']', None


# ----------------------------------------------------------------------------- Souden MVDR / WMWF
_QT = [0, 0]


def make_sw(rng, tier, idx, which):
    big = tier == 'thorough'
    D = int(rng.integers(2, 9))
    auto = bool(rng.random() < 0.35)
    nlead = 0 if auto else int(rng.choice([0, 0, 1, 2]))
    lead = tuple(int(v) for v in rng.integers(1, 4, nlead))
    Fmax = 33 if big else 17
    if auto:
        Fmax = min(Fmax, max(2, 1200 // (D * D)) + 1)
    F = int(rng.integers(1, Fmax))
    _QT[1] += 1
    wide = _QT[1] % 6 == 2
    if wide:
        # the upper end of the frequency range (F = 32, also 31 / 24) with the automatic reference channel; the odd bins
        # carry the louder target, so the broadband criterion is decided by them
        auto, lead, D, F = True, (), int(rng.integers(2, 6)), [32, 32, 31, 24][(_QT[1] // 6) % 4]
    scale = 10.0 ** rng.integers(-3, 4)
    Pn = rand_hpd(rng, lead + (F,), D, scale=scale * 10.0 ** rng.uniform(-1, 1))
    kind = 'rank1' if rng.random() < 0.6 else 'full'
    if kind == 'rank1':
        Px, a, sigma = rank1_psd(rng, lead + (F,), D, scale)
    else:
        Px, a, sigma = rand_hpd(rng, lead + (F,), D, scale=scale), None, None
    if wide:
        lev = np.where(np.arange(F) % 2 == 1, 1e3, 1.0)
        Px = Px * lev[:, None, None]
        sigma = None if sigma is None else sigma * lev
    _QT[0] += 1
    quiet = _QT[0] % 5 == 0
    if quiet:
        # a very quiet target next to ordinary noise: tr(Phi_nn^-1 Phi_xx) ~ 1e-20 .. 1e-24, far above the documented floor
        # (the smallest normal number) but below machine epsilon
        qs = float(10.0 ** rng.integers(-24, -19))
        Px = Px * qs
        sigma = None if sigma is None else sigma * qs
    ref = None if auto else int(rng.integers(0, D))
    rp = {'fn': which, 'Px': Px, 'Pn': Pn, 'a': a, 'sigma': sigma, 'ref': ref, 'kind': kind,
          'c': float(10.0 ** rng.uniform(-2, 2)), 'd': float(10.0 ** rng.uniform(-2, 2))}
    if which == 'souden':
        r = rng.random()
        rp['eps'] = None if (r < 0.6 or quiet) else (1e-10 if r < 0.8 else float(10.0 ** rng.uniform(-2, 3)))
        rp['ret_ref'] = bool(rng.random() < 0.3)
    else:
        rp['mu'] = float(rng.choice([0.0, 1.0, 100.0])) if rng.random() < 0.4 else float(rng.uniform(0, 100) * rng.choice([1, 0.01]))
        rp['mu_default'] = bool(rng.random() < 0.1)
    fail, key, coq, raised = eval_sw(rp, rng)
    name = '%s %s lead=%s F=%d D=%d ref=%s %s' % (which, kind, lead, F, D, ref,
                                                   {k: rp[k] for k in ('eps', 'mu') if k in rp})
    return Case(name, coq=coq, pred_fail=fail, key=key, nontrivial=True, digest_=core.digest(Px, Pn, ref, rp.get('eps'), rp.get('mu')),
                sample={'name': name, 'Px': core.small(Px, 3)}, replay=rp, raised=raised,
                kind='%s/%s/%s' % (which, kind, 'auto' if auto else 'ref'))


def _call_sw(which, Px, Pn, rp, ref):
    from pb_bss.extraction.beamformer import get_mvdr_vector_souden, get_wmwf_vector
    if which == 'souden':
        return get_mvdr_vector_souden(Px, Pn, ref_channel=ref, eps=rp['eps'])
    if rp.get('mu_default'):
        return get_wmwf_vector(Px, Pn, reference_channel=ref)
    return get_wmwf_vector(Px, Pn, reference_channel=ref, distortion_weight=rp['mu'])


def snr_criterion(Wm, Px, Pn, eps):
    """independent evaluation of the library's reference-channel criterion (F, D, R) -> (R,)"""
    num = np.zeros(Wm.shape[-1], complex)
    den = np.zeros(Wm.shape[-1], complex)
    for f in range(Wm.shape[0]):
        num += np.sum(Wm[f].conj() * (Px[f] @ Wm[f]), axis=0)
        den += np.sum(Wm[f].conj() * (Pn[f] @ Wm[f]), axis=0)
    den = np.where((den.real > eps) | ((den.real == eps) & (den.imag > 0)), den, eps)
    return (num / den).real


def eval_sw(rp, rng=None):
    from pb_bss.extraction.beamformer import get_mvdr_vector_souden, get_wmwf_vector
    from pb_bss.math.solve import stable_solve
    which = rp['fn']
    Px, Pn = frozen(rp['Px'], rp['Pn'])
    ref, kind = rp['ref'], rp['kind']
    D = Px.shape[-1]
    lead = Px.shape[:-2]
    F = lead[-1]
    xb, nb = Px.tobytes(), Pn.tobytes()
    mu = (1.0 if rp.get('mu_default') else rp['mu']) if which == 'wmwf' else None
    eps = (TINY if rp['eps'] is None else rp['eps']) if which == 'souden' else TINY
    tag = '%s:%s' % (which, 'auto' if ref is None else 'ref')
    try:
        if which == 'souden' and rp.get('ret_ref'):
            w, ref_used = get_mvdr_vector_souden(Px, Pn, ref_channel=ref, eps=rp['eps'], return_ref_channel=True)
        else:
            w = _call_sw(which, Px, Pn, rp, ref)
            ref_used = ref
    except Exception as e:
        return '%s raised %s: %s' % (which, type(e).__name__, str(e)[:160]), '%s:raises:%s' % (tag, type(e).__name__), None, None
    if Px.tobytes() != xb or Pn.tobytes() != nb:
        return 'caller array modified', '%s:mutates' % which, None, None
    if w.shape != lead + (D,) or not np.all(np.isfinite(w)):
        return 'result shape %s / non-finite' % (w.shape,), '%s:shape' % tag, None, None
    # the oracle, as the code obtains it, and the weight stack the criterion looks at
    phi = stable_solve(Pn, Px)
    trc = np.trace(phi, axis1=-1, axis2=-2)[..., None, None]
    Wm = phi / np.maximum(np.abs(trc), eps) if which == 'souden' else phi / (mu + trc)
    ref_coq = None
    if ref is None:
        # which column did the implementation take?  (identify it by content, then check the arg-max)
        snr = snr_criterion(Wm, Px, Pn, eps)
        cand = [r for r in range(D) if relerr(Wm[..., r], w) < 1e-9]
        if ref_used is None:
            if not cand:
                return 'returned vector is no column of the weight matrix', '%s:column' % tag, None, None
            ref_used = max(cand, key=lambda r: snr[r])
        if not (0 <= ref_used < D) or snr[ref_used] < snr.max() - 1e-7 * abs(snr.max()):
            return ('reference channel %s has criterion %.9g < max %.9g (channel %d)'
                    % (ref_used, snr[ref_used], snr.max(), int(snr.argmax())), '%s:argmax' % tag, None, None)
        fn = 'check_ref_souden' if which == 'souden' else 'check_ref_wmwf'
        extra = core.fhex(eps) if which == 'souden' else '%s %s' % (core.fhex(mu), core.fhex(TINY))
        ref_coq = '%s %d %d %s %s %s %s %d' % (fn, D, F, cten3(phi), cten3(Px), cten3(Pn), extra, ref_used)
    r = int(ref_used)
    # rank-one identities
    if kind == 'rank1':
        a, sigma = rp['a'], rp['sigma']
        xi = np.linalg.solve(Pn, a[..., None])[..., 0]
        cden = np.einsum('...d,...d->...', a.conj(), xi)
        wm = xi / cden[..., None]
        if which == 'souden' and (np.abs(trc) >= eps).all():
            exp = a[..., r, None].conj() * wm
            if relerr(w, exp) > 1e-6:
                return 'rank-one target: w differs from conj(a_ref) * w_mvdr (rel %.3g)' % relerr(w, exp), 'souden:rank1', _coq_sw(rp, Px, Pn, phi, eps, mu, r, w, rng, ref_coq), None
            g = np.einsum('...d,...d->...', w.conj(), a)
            if np.abs(g - a[..., r]).max() > 1e-6 * np.abs(a).max():
                return 'rank-one target: w^H a differs from a_ref', 'souden:reference', None, None
        if which == 'wmwf':
            A = Px + mu * Pn
            res = np.einsum('...ab,...b->...a', A, w) - Px[..., :, r]
            bound = 1e-7 * (np.abs(A).max(axis=(-1, -2)) * np.abs(w).max(-1) * D + np.abs(Px[..., :, r]).max(-1))
            if (np.abs(res).max(-1) > bound).any():
                return ('rank-one target: (Px + mu Pn) w differs from Px e_ref (residual %.3g, mu=%g)'
                        % (np.abs(res).max(), mu), 'wmwf:normal_eq', _coq_sw(rp, Px, Pn, phi, eps, mu, r, w, rng, ref_coq), None)
            if mu > 1e-3:
                exact = np.linalg.solve(A, Px[..., :, r, None])[..., 0]
                if relerr(w, exact) > 1e-5:
                    return 'rank-one target: w differs from (Px + mu Pn)^-1 Px e_ref', 'wmwf:minimiser', None, None
    # invariance to positive scaling (explicit reference channel so that a tie cannot flip the choice)
    c, d = rp['c'], rp['d']
    if which == 'souden':
        if (np.minimum(np.abs(trc), np.abs(trc) * d / c) > 1e3 * eps).all():
            w2 = get_mvdr_vector_souden(d * Px, c * Pn, ref_channel=r, eps=rp['eps'])
            if relerr(w2, w) > 1e-7:
                return 'Souden MVDR changes under positive scaling of the PSDs (rel %.3g)' % relerr(w2, w), 'souden:scale', None, None
    else:
        w2 = _call_sw(which, c * Px, c * Pn, rp, r)
        if relerr(w2, w) > 1e-7:
            return 'WMWF changes under joint positive scaling of the PSDs (rel %.3g)' % relerr(w2, w), 'wmwf:scale', None, None
        if mu == 0.0:
            w3 = get_mvdr_vector_souden(Px, Pn, ref_channel=r)
            if relerr(w3, w) > 1e-9:
                return 'WMWF with mu = 0 differs from Souden MVDR', 'wmwf:mu0', None, None
    # stack == stack of slices
    prng = np.random.default_rng(12345)
    for ix in pick_bins(prng, list(np.ndindex(*lead)), 3):
        ws = _call_sw(which, Px[ix][None], Pn[ix][None], rp, r)[0]
        if relerr(ws, w[ix]) > 1e-9:
            return 'stacked result differs from the per-bin result at %s' % (ix,), '%s:stack' % which, None, None
    f = core.container_variants(lambda x_, n_: _call_sw(which, x_, n_, rp, r), [Px, Pn], w,
                                lambda r_, e: np.shape(r_) == np.shape(e) and relerr(np.asarray(r_), e) <= 1e-7)
    if f:
        return '%s: %s' % (which, f), '%s:container' % which, None, None
    return None, None, _coq_sw(rp, Px, Pn, phi, eps, mu, r, w, rng, ref_coq), None


def _coq_sw(rp, Px, Pn, phi, eps, mu, r, w, rng, ref_coq):
    which = rp['fn']
    D = Px.shape[-1]
    lead = Px.shape[:-2]
    parts = [ref_coq] if ref_coq else []
    for ix in pick_bins(rng, list(np.ndindex(*lead)), 2 if ref_coq else 3):
        if which == 'souden':
            parts.append('check_souden %d %s %s %s %s %d %s' % (D, core.cmat(Pn[ix]), core.cmat(Px[ix]), core.cmat(phi[ix]),
                                                               core.fhex(eps), r, core.clist(w[ix])))
        else:
            parts.append('check_wmwf %d %s %s %s %s %d %s' % (D, core.cmat(Pn[ix]), core.cmat(Px[ix]), core.cmat(phi[ix]),
                                                             core.fhex(mu), r, core.clist(w[ix])))
    return 'allR [' + '; '.join(parts) + ']'


# ----------------------------------------------------------------------------- driver
def _make(rng, tier, i):
    k = i % 10
    if k < 3:
        return make_mvdr(rng, tier, i)
    if k == 3:
        return make_lcmv(rng, tier, i)
    if k < 7:
        return make_sw(rng, tier, i, 'souden')
    return make_sw(rng, tier, i, 'wmwf')


def cases(rng, tier):
    n = 100 if tier == 'quick' else 1000
    return [_make(rng, tier, i) for i in range(n)]


def search(rng, tier, hints):
    out = []
    for i in range(300 if tier == 'quick' else 2000):
        c = _make(rng, 'thorough', i)
        if c.pred_fail:
            out.append(c)
            break
    return out


def replay(payload):
    rp = payload['replay']
    fn = rp['fn']
    if fn == 'mvdr':
        return eval_mvdr(rp)[0]
    if fn == 'lcmv':
        return eval_lcmv(rp)[0]
    return eval_sw(rp)[0]
