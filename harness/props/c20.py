"""C20 -- calls are pure: inputs untouched, results reproducible and history-free, fit split law.

Proved (Properties/C20.v): history-freedom of the caching-trainer state machine, the split law for any list of
budgets, determinism of a call in (arguments, explicit generator state), what a call does to the generator.
Monitored here on every run (no theorem possible: caller memory is NumPy runtime state):
  * every public entry point of the mixture / distribution, beamforming, masking, alignment and metric modules is
    called with read-only arrays (setflags(write=False)), bytes hashed before and after, and called a second time
    (np.random re-seeded) -- results must be bit-identical;
  * reused-trainer histories (<= 5 earlier fits; same / different data, class count, options, feature dimension)
    against a fresh trainer bit-for-bit AND against the Coq state machine tfit / trun (accept / reject, cached
    dimension, cached table);
  * cACGMM split law: fit(q) == fit(p) continued by q - p iterations for every 1 <= p < q <= n (this covers every
    composition n1 + ... + nj by induction over the chain, given bitwise determinism which is checked too), plus
    explicitly executed compositions; the recorded E/M step words against Model/Calls.v;
  * num_classes start: re-seeding reproduces, the generator advances by exactly one uniform draw of the affiliation
    shape, an explicit start leaves the generator untouched."""
import copy
import itertools
import numpy as np
from harness import core, mm
from harness.core import Case

PID = 'C20'
REQUIRES = ['Run.C20']
RULE = ('every public entry point (7 mixture trainers fit / fit_predict / predict, single-distribution trainers and log_pdf, '
        'from_covariance x covariance_norm, beamformer functions and every get_bf_vector name, masks, 3 aligners, si_sdr, '
        'input_sxr, output_sxr, get_snr, set_snr(inplace=False)) with fresh random valid arguments; histories of 0..5 earlier '
        'fits; cACGMM budgets n <= 6 (quick) / 20 (thorough), all (p, q) continuation pairs; non-trivial: the call returned '
        '(did not raise) and at least one array argument has more than one element; distinct by SHA-1 of entry + arguments')
NOT_PROVED = ('"arguments are bit-identical afterwards / read-only inputs are accepted" is a property of the NumPy runtime that a '
              'pure Gallina model cannot exhibit: MONITORED on every case (byte hashes of read-only arrays), not proved. '
              'Bitwise reproducibility of the floating-point results is observed, not proved (the theorems are about the '
              'model functions).')
ASSUMPTIONS = ['np.random global generator re-seeded before every call that may draw',
               'single-threaded BLAS (OMP/OPENBLAS/MKL_NUM_THREADS=1) for bitwise repeatability']

EXPLICIT = (AssertionError, ValueError, NotImplementedError, np.linalg.LinAlgError, FloatingPointError, TypeError)


# ----------------------------------------------------------------------------- generic machinery
def crandn(rng, shape):
    return rng.normal(size=shape) + 1j * rng.normal(size=shape)


def hpd(rng, lead, D, rank=None, eps=0.1):
    a = crandn(rng, (*lead, D, rank or D))
    m = a @ np.swapaxes(a.conj(), -1, -2)
    return m + eps * np.eye(D)


def arrays_in(o, path='', seen=None):
    """all ndarrays reachable from o (through lists, tuples, dicts, dataclass models), with a path label"""
    out = []
    if isinstance(o, np.ndarray):
        out.append((path, o))
    elif isinstance(o, dict):
        for k in o:
            out += arrays_in(o[k], '%s.%s' % (path, k))
    elif isinstance(o, (list, tuple)):
        for i, v in enumerate(o):
            out += arrays_in(v, '%s[%d]' % (path, i))
    elif hasattr(o, '__dataclass_fields__'):
        for k in o.__dataclass_fields__:
            out += arrays_in(o.__dict__.get(k), '%s.%s' % (path, k))
    return out


def freeze(o):
    for _, a in arrays_in(o):
        base = a
        while isinstance(base.base, np.ndarray):
            base = base.base
        try:
            base.setflags(write=False)
        except ValueError:
            pass
        a.setflags(write=False)


def snapshot(o):
    return [(p, a.dtype.str, a.shape, a.tobytes()) for p, a in arrays_in(o)]


def flat_result(o, path='r'):
    """result -> list of (path, array) ; models, tuples, dicts, scalars"""
    if o is None:
        return [(path, np.zeros(0))]
    if isinstance(o, np.ndarray):
        return [(path, o)]
    if isinstance(o, dict):
        return [x for k in sorted(o) for x in flat_result(o[k], '%s.%s' % (path, k))]
    if isinstance(o, (list, tuple)):
        return [x for i, v in enumerate(o) for x in flat_result(v, '%s[%d]' % (path, i))]
    if hasattr(o, '__dataclass_fields__'):
        return [x for k in o.__dataclass_fields__ for x in flat_result(o.__dict__.get(k), '%s.%s' % (path, k))]
    if isinstance(o, (bool, int, float, complex, np.generic, str)):
        return [(path, np.asarray(o))]
    return [(path, np.asarray(repr(type(o))))]


def same_result(a, b):
    """None if bit-identical, else text"""
    fa, fb = flat_result(a), flat_result(b)
    if [p for p, _ in fa] != [p for p, _ in fb]:
        return 'result structure differs: %s vs %s' % ([p for p, _ in fa][:6], [p for p, _ in fb][:6])
    for (p, x), (_, y) in zip(fa, fb):
        if x.dtype != y.dtype or x.shape != y.shape:
            return '%s: dtype/shape %s%s vs %s%s' % (p, x.dtype, x.shape, y.dtype, y.shape)
        if x.tobytes() != y.tobytes():
            with np.errstate(all='ignore'):
                d = np.nanmax(np.abs(x.astype(complex) - y.astype(complex))) if x.size and x.dtype.kind in 'fciub' else float('nan')
            return '%s differs bitwise (max abs diff %.3g)' % (p, d)
    return None


def max_diff(a, b):
    fa, fb = flat_result(a), flat_result(b)
    d = 0.0
    for (p, x), (_, y) in zip(fa, fb):
        if x.shape != y.shape:
            return float('inf')
        if x.size and x.dtype.kind in 'fc':
            with np.errstate(all='ignore'):
                d = max(d, float(np.nanmax(np.abs(x - y) / np.maximum(1e-300, np.maximum(np.abs(x), np.abs(y))))))
    return d


def monitored_call(fn, args, seed):
    """call fn(**args) twice with frozen arguments.  Returns (fail_text, key_suffix, result, raised_text)"""
    a1 = copy.deepcopy(args)
    freeze(a1)
    before = snapshot(a1)
    np.random.seed(seed)
    try:
        r1 = fn(**a1)
        exc = None
    except Exception as e:      # noqa
        r1, exc = None, e
    after = snapshot(a1)
    changed = [b[0] for b, a in zip(before, after) if b != a]
    if changed:
        return 'argument %s modified by the call (bytes differ afterwards)' % changed[0], 'mutates', None, None
    if exc is not None:
        # does it work (and then mutate) with writable arguments?
        a2 = copy.deepcopy(args)
        b2 = snapshot(a2)
        np.random.seed(seed)
        try:
            fn(**a2)
        except Exception as e2:   # noqa
            if type(e2) is type(exc):
                if any(x != y for x, y in zip(b2, snapshot(a2))):
                    ch = [x[0] for x, y in zip(b2, snapshot(a2)) if x != y]
                    return ('argument %s modified by the call (which then raised %s)' % (ch[0], type(e2).__name__),
                            'mutates', None, None)
                if isinstance(exc, EXPLICIT):
                    return None, None, None, '%s: %s' % (type(exc).__name__, str(exc)[:100])
                return ('call raised %s (not an explicit exception): %s' % (type(exc).__name__, str(exc)[:200]),
                        'crash', None, None)
        ch = [x[0] for x, y in zip(b2, snapshot(a2)) if x != y]
        if ch:
            return ('read-only argument rejected (%s: %s); with a writable array the call modifies argument %s in place'
                    % (type(exc).__name__, str(exc)[:80], ch[0])), 'mutates', None, None
        return ('read-only argument rejected: %s: %s' % (type(exc).__name__, str(exc)[:120])), 'readonly', None, None
    # second, identical call
    a3 = copy.deepcopy(args)
    freeze(a3)
    np.random.seed(seed)
    try:
        r2 = fn(**a3)
    except Exception as e:      # noqa
        return 'second identical call raised %s: %s' % (type(e).__name__, str(e)[:120]), 'nondet', None, None
    d = same_result(r1, r2)
    if d:
        return 'not reproducible: ' + d, 'nondet', None, None
    # the result must not alias a caller array that is later written: check the returned arrays do not share memory
    # with writable views of the inputs (they are read-only here, so any aliasing is harmless) -- nothing to do
    return None, None, r1, None


# ----------------------------------------------------------------------------- entry points
def _mm_setup(rng, name, small=False):
    K = int(rng.integers(2, 4))
    D = int(rng.integers(2, 5))
    if name == 'cbmm':
        K, D = 2, int(rng.integers(2, 4))
    if name in mm.INTEGRATION:
        lead = (int(rng.integers(1, 3)),)
    else:
        lead = tuple(int(v) for v in rng.integers(1, 3, int(rng.integers(0, 3))))
    if name == 'cbmm':
        lead = lead[:1]
    N = int(rng.integers(2 * K + 2, 14)) if name != 'cbmm' else int(rng.integers(6, 9))
    data = mm.make_data(rng, name, K, D, N, lead)
    data.pop('labels')
    init = mm.make_init(rng, K, N, lead, ['positive', 'dirichlet'][int(rng.integers(0, 2))])
    opts = mm.sample_options(rng, name, K, N, lead, with_aligner=bool(rng.random() < 0.3))
    if isinstance(opts.get('weight_constant_axis'), list) and name in mm.INTEGRATION:
        opts['weight_constant_axis'] = tuple(opts['weight_constant_axis'])
    if name == 'cwmm':
        opts.pop('affiliation_eps', None)
    if 'inline_permutation_aligner' in opts and lead[0] % 2 == 0:
        opts.pop('inline_permutation_aligner')         # the aligners assert an odd number of frequencies
    iters = int(rng.integers(1, 4)) if name != 'cbmm' else int(rng.integers(1, 3))
    return K, D, N, lead, data, init, opts, iters


def _fit_fn(name, method='fit'):
    def fn(data, initialization=None, num_classes=None, iterations=1, opts=None):
        T = mm.trainer_cls(name)()
        kw = dict(opts or {})
        if initialization is not None:
            kw['initialization'] = initialization
        else:
            kw['num_classes'] = num_classes
        f = getattr(T, method)
        if name in mm.INTEGRATION:
            return f(data['observation'], data['embedding'], iterations=iterations, **kw)
        return f(data['y'], iterations=iterations, **kw)
    return fn


def e_mm_fit(name, method, start):
    def build(rng):
        K, D, N, lead, data, init, opts, iters = _mm_setup(rng, name)
        if method == 'fit_predict' and name == 'cacgmm':
            opts.pop('source_activity_mask', None)
        if start == 'num_classes':
            opts.pop('source_activity_mask', None)
            args = dict(data=data, num_classes=K, iterations=iters, opts=opts)
        else:
            args = dict(data=data, initialization=init, iterations=iters, opts=opts)
        return _fit_fn(name, method), args, '%s K=%d D=%d N=%d lead=%s it=%d %s' % (
            start, K, D, N, lead, iters, mm.describe_options(opts))
    return build


def e_mm_predict(name):
    def build(rng):
        K, D, N, lead, data, init, opts, iters = _mm_setup(rng, name)
        mask = opts.get('source_activity_mask')
        model = _fit_fn(name)(data, initialization=init, iterations=iters, opts=opts)

        def fn(model, data, mask):
            kw = {}
            if name == 'cacgmm' and mask is not None:
                kw['source_activity_mask'] = mask
            out = [mm.predict(name, model, data, **kw)]
            if name == 'cacgmm':
                out.append(model.predict(data['y'], return_quadratic_form=True))
                out.append(model.log_likelihood(data['y']))
            return out
        return fn, dict(model=model, data=data, mask=mask), 'K=%d D=%d N=%d lead=%s' % (K, D, N, lead)
    return build


def e_cacgmm_continue(rng):
    K, D, N, lead, data, init, opts, iters = _mm_setup(rng, 'cacgmm')
    opts.pop('inline_permutation_aligner', None)
    model = _fit_fn('cacgmm')(data, initialization=init, iterations=1, opts=opts)
    return _fit_fn('cacgmm'), dict(data=data, initialization=model, iterations=iters, opts=opts), \
        'initialization=<CACGMM> K=%d D=%d N=%d lead=%s it=%d' % (K, D, N, lead, iters)


def _lead(rng, maxn=2):
    return tuple(int(v) for v in rng.integers(1, 4, int(rng.integers(0, maxn + 1))))


def e_gaussian_fit(ct):
    def build(rng):
        from pb_bss.distribution import GaussianTrainer
        lead, N, D = _lead(rng), int(rng.integers(4, 10)), int(rng.integers(1, 4))
        y = rng.normal(size=(*lead, N, D))
        sal = rng.uniform(0.1, 2, size=(*lead, N)) if rng.random() < 0.6 else None
        return (lambda y, saliency: GaussianTrainer().fit(y, saliency=saliency, covariance_type=ct)), \
            dict(y=y, saliency=sal), 'lead=%s N=%d D=%d saliency=%s' % (lead, N, D, sal is not None)
    return build


def e_gaussian_logpdf(ct):
    def build(rng):
        from pb_bss.distribution import GaussianTrainer
        lead, N, D = _lead(rng), int(rng.integers(4, 10)), int(rng.integers(1, 4))
        model = GaussianTrainer().fit(rng.normal(size=(*lead, N + 3, D)), covariance_type=ct)
        y = rng.normal(size=(*lead, N, D))
        return (lambda model, y: model.log_pdf(y)), dict(model=model, y=y), 'lead=%s N=%d D=%d' % (lead, N, D)
    return build


def e_ccsg(which):
    def build(rng):
        from pb_bss.distribution import ComplexCircularSymmetricGaussianTrainer as T
        lead, N, D = _lead(rng), int(rng.integers(5, 10)), int(rng.integers(2, 4))
        y = crandn(rng, (*lead, N, D))
        sal = rng.uniform(0.1, 2, size=(*lead, N)) if rng.random() < 0.5 else None
        if which == 'fit':
            return (lambda y, saliency: T().fit(y, saliency=saliency)), dict(y=y, saliency=sal), 'lead=%s' % (lead,)
        model = T().fit(crandn(rng, (*lead, N + 4, D)))
        return (lambda model, y: model.log_pdf(y)), dict(model=model, y=y), 'lead=%s' % (lead,)
    return build


def e_vmf(which):
    def build(rng):
        from pb_bss.distribution import VonMisesFisherTrainer as T
        lead, N, D = _lead(rng), int(rng.integers(5, 10)), int(rng.integers(2, 5))
        y = rng.normal(size=(*lead, N, D)) + 1.5
        sal = rng.uniform(0.1, 2, size=(*lead, N)) if rng.random() < 0.5 else None
        if which == 'fit':
            return (lambda y, saliency: T().fit(y, saliency=saliency)), dict(y=y, saliency=sal), 'lead=%s' % (lead,)
        model = T().fit(y + 0.1)
        return (lambda model, y: [model.log_pdf(y), model.log_norm()]), dict(model=model, y=y), 'lead=%s' % (lead,)
    return build


def e_watson(which):
    def build(rng):
        from pb_bss.distribution import ComplexWatsonTrainer as T
        lead, N, D = _lead(rng), int(rng.integers(5, 10)), int(rng.integers(2, 5))
        y = crandn(rng, (*lead, N, D)) + 1.0
        sal = rng.uniform(0.1, 2, size=(*lead, N)) if rng.random() < 0.5 else None
        if which == 'fit':
            return (lambda y, saliency: T().fit(y, saliency=saliency)), dict(y=y, saliency=sal), 'lead=%s' % (lead,)
        model = T().fit(y * 1.1)
        return (lambda model, y: [model.log_pdf(y), model.log_norm()]), dict(model=model, y=y), 'lead=%s' % (lead,)
    return build


def e_bingham(which):
    def build(rng):
        from pb_bss.distribution.complex_bingham import ComplexBinghamTrainer as T
        lead, N, D = _lead(rng, 1), int(rng.integers(6, 10)), int(rng.integers(2, 4))
        y = crandn(rng, (*lead, N, D)) + 1.0
        sal = rng.uniform(0.1, 2, size=(*lead, N)) if rng.random() < 0.5 else None
        if which == 'fit':
            return (lambda y, saliency: T().fit(y, saliency=saliency)), dict(y=y, saliency=sal), 'lead=%s' % (lead,)
        model = T().fit(y * 1.1)
        yn = y / np.linalg.norm(y, axis=-1, keepdims=True)
        return (lambda model, y: [model.log_pdf(y), model.norm(), model.covariance]), dict(model=model, y=yn), 'lead=%s' % (lead,)
    return build


def e_cacg(which):
    def build(rng):
        from pb_bss.distribution import ComplexAngularCentralGaussianTrainer as T, ComplexAngularCentralGaussian as C
        lead, N, D = _lead(rng), int(rng.integers(6, 12)), int(rng.integers(2, 5))
        y = crandn(rng, (*lead, N, D))
        if which == 'fit':
            opts = dict(hermitize=bool(rng.random() < 0.7), covariance_norm=['eigenvalue', 'trace', False][int(rng.integers(0, 3))],
                        eigenvalue_floor=float(rng.choice([1e-10, 1e-4])), iterations=int(rng.integers(1, 4)))
            return (lambda y: T().fit(y, **opts)), dict(y=y), 'lead=%s %s' % (lead, opts)
        if which.startswith('from_covariance'):
            norm = {'eigenvalue': 'eigenvalue', 'trace': 'trace', 'False': False}[which.split(':')[1]]
            cov = hpd(rng, lead, D)
            fl = float(rng.choice([0.0, 1e-10, 1e-3]))
            return (lambda covariance: C.from_covariance(covariance, eigenvalue_floor=fl, covariance_norm=norm)), \
                dict(covariance=cov), 'lead=%s D=%d floor=%g' % (lead, D, fl)
        model = C.from_covariance(hpd(rng, lead, D), eigenvalue_floor=1e-10)
        return (lambda model, y: [model.log_pdf(y), model.covariance, model.log_determinant]), dict(model=model, y=y), \
            'lead=%s' % (lead,)
    return build


def e_mm_utils(which):
    def build(rng):
        from pb_bss.distribution import mixture_model_utils as u
        from pb_bss.distribution.complex_angular_central_gaussian import normalize_observation
        lead, K, N = _lead(rng), int(rng.integers(2, 5)), int(rng.integers(3, 9))
        if which == 'log_pdf_to_affiliation':
            lp = rng.normal(size=(*lead, K, N)) * 10
            w = rng.dirichlet(np.ones(K), size=lead)[..., None] if lead else rng.dirichlet(np.ones(K))[:, None]
            mask = (rng.random((*lead, K, N)) < 0.8) if rng.random() < 0.5 else None
            eps = float(rng.choice([0.0, 1e-10]))
            return (lambda weight, log_pdf, mask: u.log_pdf_to_affiliation(weight, log_pdf, source_activity_mask=mask, affiliation_eps=eps)), \
                dict(weight=w, log_pdf=lp, mask=mask), 'lead=%s K=%d N=%d' % (lead, K, N)
        if which == 'estimate_mixture_weight':
            a = mm.make_init(rng, K, N, lead)
            sal = rng.uniform(0.1, 2, size=(*lead, N)) if rng.random() < 0.5 else None
            wca = [-1, (-1,), -2][int(rng.integers(0, 3))]
            return (lambda affiliation, saliency: u.estimate_mixture_weight(affiliation, saliency, weight_constant_axis=wca)), \
                dict(affiliation=a, saliency=sal), 'lead=%s wca=%s' % (lead, wca)
        if which == 'normalize_observation':
            y = crandn(rng, (*lead, N, K))
            y[..., 0, :] = 0
            return (lambda y: normalize_observation(y)), dict(y=y), 'lead=%s' % (lead,)
        if which == 'sample_cacgmm':
            from pb_bss.distribution import sample_cacgmm
            D = int(rng.integers(2, 4))
            w = rng.dirichlet(np.ones(K))
            return (lambda weight, covariance: sample_cacgmm(20, weight, covariance, return_label=True)), \
                dict(weight=w, covariance=hpd(rng, (K,), D)), 'K=%d D=%d' % (K, D)
        raise KeyError(which)
    return build


# ---- beamforming
def _psds(rng, lead=None, D=None, F=None):
    D = D or int(rng.integers(2, 5))
    F = F or int(rng.integers(2, 6))
    lead = tuple(lead) if lead is not None else ()
    target = hpd(rng, (*lead, F), D, rank=1, eps=1e-3)
    noise = hpd(rng, (*lead, F), D)
    return D, F, target, noise


BF_NAMES = ['pca', 'pca+mvdr', 'scaled_gev_atf+mvdr', 'mvdr_souden', 'rank1_pca+mvdr_souden', 'rank1_gev+mvdr_souden', 'gev',
            'rank1_pca+gev', 'rank1_gev+gev', 'wmwf', 'rank1_pca+wmwf', 'rank1_gev+wmwf', 'ch0', 'ch1']


def e_bf(which):
    def build(rng):
        from pb_bss.extraction import beamformer as bf
        from pb_bss.extraction import get_bf_vector
        D, F, target, noise = _psds(rng)
        T = int(rng.integers(4, 9))
        vec = crandn(rng, (F, D))
        lab = 'F=%d D=%d' % (F, D)
        if which == 'psd':
            K = int(rng.integers(1, 4))
            obs = crandn(rng, (F, D, T))
            kind = int(rng.integers(0, 4))
            mask = [None, rng.random((F, T)), rng.random((F, K, T)), rng.random((F, K, T)) < 0.6][kind]
            normalize = bool(rng.random() < 0.7)
            return (lambda observation, mask: bf.get_power_spectral_density_matrix(observation, mask, normalize=normalize)), \
                dict(observation=obs, mask=mask), lab + ' maskkind=%d normalize=%s' % (kind, normalize)
        if which == 'psd_layout':
            K = int(rng.integers(1, 4))
            obs = crandn(rng, (D, F, T))
            mask = rng.random((K, F, T))
            return (lambda observation, mask: bf.get_power_spectral_density_matrix(observation, mask, sensor_dim=0, source_dim=0)), \
                dict(observation=obs, mask=mask), lab + ' sensor_dim=0 source_dim=0'
        if which == 'pca_vector':
            sc = [None, 'trace', 'eigenvalue'][int(rng.integers(0, 3))]
            return (lambda target: bf.get_pca_vector(target, scaling=sc)), dict(target=target), lab + ' scaling=%s' % sc
        if which == 'mvdr':
            return (lambda atf, noise: bf.get_mvdr_vector(atf, noise)), dict(atf=vec[0], noise=noise[0]), lab + ' single bin'
        if which == 'mvdr_stacked':
            return (lambda atf, noise: bf.get_mvdr_vector(atf, noise)), dict(atf=vec, noise=noise), lab
        if which == 'mvdr_merl':
            return (lambda target, noise: bf.get_mvdr_vector_merl(target, noise)), dict(target=target, noise=noise), lab
        if which == 'gev':
            ue = bool(rng.random() < 0.4)
            return (lambda target, noise: bf.get_gev_vector(target, noise, use_eig=ue)), dict(target=target, noise=noise), lab + ' use_eig=%s' % ue
        if which == 'gev_lead':
            _, _, t2, n2 = _psds(rng, lead=(2,), D=D, F=F)
            return (lambda target, noise: bf.get_gev_vector(target, noise)), dict(target=t2, noise=n2), lab + ' lead=(2,)'
        if which == 'lcmv':
            K = 2
            atfs = crandn(rng, (K, F, D))
            resp = np.array([1.0, 0.0])
            return (lambda atfs, resp, noise: bf.get_lcmv_vector(atfs, resp, noise)), dict(atfs=atfs, resp=resp, noise=noise), lab
        if which == 'ban':
            return (lambda vector, noise: bf.blind_analytic_normalization(vector, noise)), dict(vector=vec, noise=noise), lab
        if which == 'distortionless':
            return (lambda vector, atf, noise: bf.distortionless_normalization(vector, atf, noise)), \
                dict(vector=vec, atf=crandn(rng, (F, D)), noise=noise), lab
        if which == 'snr_postfilter':
            return (lambda vector, target, noise: bf.mvdr_snr_postfilter(vector, target, noise)), \
                dict(vector=vec, target=target, noise=noise), lab
        if which == 'zero_degree':
            rc = int(rng.integers(0, D))
            return (lambda vector: bf.zero_degree_normalization(vector, rc)), dict(vector=vec), lab
        if which == 'phase_correction':
            v = crandn(rng, (*_lead(rng, 1), F, D))
            return (lambda vector: bf.phase_correction(vector)), dict(vector=v), lab + ' shape=%s' % (v.shape,)
        if which == 'condition_covariance':
            g = float(rng.uniform(0, 1))
            return (lambda x: bf.condition_covariance(x, g)), dict(x=noise), lab
        if which == 'apply':
            return (lambda vector, mix: bf.apply_beamforming_vector(vector, mix)), dict(vector=vec, mix=crandn(rng, (F, D, T))), lab
        if which == 'apply_online':
            return (lambda vector, mix: bf.apply_online_beamforming_vector(vector, mix)), \
                dict(vector=crandn(rng, (T, F, D)), mix=crandn(rng, (F, D, T))), lab
        if which == 'ref_channel':
            return (lambda w, target, noise: bf.get_optimal_reference_channel(w, target, noise)), \
                dict(w=crandn(rng, (F, D, D)), target=target, noise=noise), lab
        if which == 'mvdr_souden':
            rc = [None, int(rng.integers(0, D))][int(rng.integers(0, 2))]
            return (lambda target, noise: bf.get_mvdr_vector_souden(target, noise, ref_channel=rc, return_ref_channel=True)), \
                dict(target=target, noise=noise), lab + ' ref=%s' % rc
        if which == 'wmwf':
            mode = int(rng.integers(0, 4))
            kw = [dict(), dict(reference_channel=int(rng.integers(0, D))), dict(distortion_weight='frequency_dependent'),
                  dict(channel_selection_vector=rng.dirichlet(np.ones(D)), distortion_weight=0.5)][mode]
            csv = kw.pop('channel_selection_vector', None)
            return (lambda target, noise, csv: bf.get_wmwf_vector(target, noise, channel_selection_vector=csv, **kw)), \
                dict(target=target, noise=noise, csv=csv), lab + ' mode=%d' % mode
        if which.startswith('bf:'):
            name = which[3:]
            return (lambda target, noise: get_bf_vector(name, target, noise)), dict(target=target, noise=noise), lab
        raise KeyError(which)
    return build


# ---- masks
def e_mask(which):
    def build(rng):
        from pb_bss.extraction import mask_module as m
        K, D, F, T = int(rng.integers(2, 4)), int(rng.integers(1, 4)), int(rng.integers(3, 8)), int(rng.integers(3, 8))
        pooled = bool(rng.random() < 0.5) and which not in ('ideal_ratio_mask', 'ideal_amplitude_mask', 'phase_sensitive_mask', 'ideal_complex_mask')
        sig = crandn(rng, (K, D, F, T)) if pooled else crandn(rng, (K, F, T))
        kw = dict(source_axis=0, sensor_axis=1 if pooled else None)
        lab = 'shape=%s' % (sig.shape,)
        if which in ('ideal_binary_mask', 'wiener_like_mask', 'ideal_ratio_mask', 'ideal_amplitude_mask', 'phase_sensitive_mask',
                     'ideal_complex_mask'):
            f = getattr(m, which)
            return (lambda signal: f(signal, **kw)), dict(signal=sig), lab
        if which == 'lorenz_mask':
            s = crandn(rng, (D, F, T)) if pooled else crandn(rng, (F, T))
            return (lambda signal: m.lorenz_mask(signal, sensor_axis=0 if pooled else None)), dict(signal=s), 'shape=%s' % (s.shape,)
        if which == 'quantile_mask':
            s = crandn(rng, (D, F, T))
            q = [(0.1, -0.9), 0.2, -0.7][int(rng.integers(0, 3))]
            return (lambda signal: m.quantile_mask(signal, quantile=q, axis=-2)), dict(signal=s), 'shape=%s q=%s' % (s.shape, q)
        if which == 'biased_binary_mask':
            s = crandn(rng, (2, T, 16))
            return (lambda signal: m.biased_binary_mask(signal, low_cut=2, high_cut=12)), dict(signal=s), 'shape=%s' % (s.shape,)
        if which == 'voiced_unvoiced_split_characteristic':
            nb = int(rng.integers(20, 60))
            return (lambda: m.voiced_unvoiced_split_characteristic(nb)), dict(), 'bins=%d' % nb
        raise KeyError(which)
    return build


# ---- aligners
def e_align(which, force_metric=None):
    def build(rng):
        from pb_bss import permutation_alignment as pa
        K, F, T = int(rng.integers(2, 4)), int(2 * rng.integers(2, 9) + 1), int(rng.integers(4, 10))
        mask = rng.uniform(0.01, 1, size=(K, F, T))
        mask /= mask.sum(0, keepdims=True)
        metric = ['cos', 'euclidean', 'multiply'][int(rng.integers(0, 3))]
        if force_metric is not None:
            metric = force_metric
        alg = ['greedy', 'optimal'][int(rng.integers(0, 2))]
        lab = 'K=%d F=%d T=%d %s/%s' % (K, F, T, metric, alg)
        if which == 'dhtv':
            w = int(rng.integers(2, max(3, F // 2)))
            st = int(rng.integers(0, F - w))
            al = pa.DHTVPermutationAlignment(stft_size=2 * (F - 1), segment_start=st, segment_width=w,
                                             segment_shift=int(rng.integers(1, 4)), main_iterations=int(rng.integers(1, 4)),
                                             sub_iterations=int(rng.integers(1, 3)), similarity_metric=metric)
            return (lambda mask: [al.calculate_mapping(mask), al(mask)]), dict(mask=mask), lab
        if which == 'greedy':
            al = pa.GreedyPermutationAlignment(similarity_metric=metric, algorithm=alg)
            return (lambda mask: [al.calculate_mapping(mask), al(mask)]), dict(mask=mask), lab
        if which == 'oracle':
            al = pa.OraclePermutationAlignment(similarity_metric=metric, algorithm=alg)
            ref = rng.uniform(0.01, 1, size=(K, F, T))
            return (lambda mask, ref: [al.calculate_mapping(mask, ref), al(mask, ref)]), dict(mask=mask, ref=ref), lab
        if which == 'apply_mapping':
            mp = np.stack([rng.permutation(K) for _ in range(F)], axis=1)
            return (lambda mask, mapping: pa.apply_mapping(mask, mapping)), dict(mask=mask, mapping=mp), lab
        raise KeyError(which)
    return build


# ---- metrics
def e_metric(which):
    def build(rng):
        from pb_bss.evaluation import sxr_module as s
        from pb_bss.evaluation.module_si_sdr import si_sdr
        K, D, T = int(rng.integers(1, 4)), int(rng.integers(1, 4)), int(rng.integers(16, 64))
        lab = 'K=%d D=%d T=%d' % (K, D, T)
        if which == 'si_sdr':
            ref = rng.normal(size=(K, T))
            return (lambda reference, estimation: si_sdr(reference, estimation)), \
                dict(reference=ref, estimation=ref * rng.uniform(0.5, 2) + 0.3 * rng.normal(size=(K, T))), lab
        if which == 'input_sxr':
            rd = [False, True, 'in_'][int(rng.integers(0, 3))]
            a, b = bool(rng.random() < 0.5), bool(rng.random() < 0.5)
            return (lambda images, noise: s.input_sxr(images, noise, average_sources=a, average_channels=b, return_dict=rd)), \
                dict(images=rng.normal(size=(K, D, T)), noise=rng.normal(size=(D, T))), lab + ' return_dict=%r' % (rd,)
        if which == 'output_sxr':
            Kt = K + int(rng.integers(0, 2))
            rd = [False, True][int(rng.integers(0, 2))]
            a = bool(rng.random() < 0.5)
            return (lambda ic, nc: s.output_sxr(ic, nc, average_sources=a, return_dict=rd)), \
                dict(ic=rng.normal(size=(K, Kt, T)), nc=rng.normal(size=(Kt, T))), lab + ' Kt=%d' % Kt
        cplx = bool(rng.random() < 0.5)
        X = crandn(rng, (D, T)) if cplx else rng.normal(size=(D, T))
        Nn = crandn(rng, (D, T)) if cplx else rng.normal(size=(D, T))
        ax = [None, -1, 0][int(rng.integers(0, 3))]
        if which == 'get_snr':
            return (lambda X, N: s.get_snr(X, N, axis=ax, keepdims=bool(ax is not None))), dict(X=X, N=Nn), lab + ' axis=%s' % ax
        if which == 'set_snr':
            snr = float(rng.uniform(-10, 20))
            # a falsy flag is a falsy flag whatever its Python type (a numpy comparison yields np.bool_, a config file 0)
            flag = [False, np.bool_(False), 0, np.array(5) < 3][int(rng.integers(0, 4))]
            return (lambda X, N: s.set_snr(X, N, snr, axis=ax, inplace=flag)), dict(X=X, N=Nn), \
                lab + ' axis=%s inplace=%s:%r' % (ax, type(flag).__name__, flag)
        raise KeyError(which)
    return build


def entry_points():
    E = {}
    for name in mm.MODELS:
        E['%s.fit' % name] = e_mm_fit(name, 'fit', 'initialization')
        E['%s.fit(num_classes)' % name] = e_mm_fit(name, 'fit', 'num_classes')
        E['%s.fit_predict' % name] = e_mm_fit(name, 'fit_predict', 'initialization')
        E['%s.predict' % name] = e_mm_predict(name)
    E['cacgmm.fit(initialization=model)'] = e_cacgmm_continue
    for ct in ('full', 'diagonal', 'spherical'):
        E['GaussianTrainer.fit[%s]' % ct] = e_gaussian_fit(ct)
        E['Gaussian.log_pdf[%s]' % ct] = e_gaussian_logpdf(ct)
    for w in ('fit', 'log_pdf'):
        E['ComplexCircularSymmetricGaussian.%s' % w] = e_ccsg(w)
        E['VonMisesFisher.%s' % w] = e_vmf(w)
        E['ComplexWatson.%s' % w] = e_watson(w)
        E['ComplexBingham.%s' % w] = e_bingham(w)
        E['ComplexAngularCentralGaussian.%s' % w] = e_cacg(w)
    for n in ('eigenvalue', 'trace', 'False'):
        E['ComplexAngularCentralGaussian.from_covariance[%s]' % n] = e_cacg('from_covariance:' + n)
    for w in ('log_pdf_to_affiliation', 'estimate_mixture_weight', 'normalize_observation', 'sample_cacgmm'):
        E[w] = e_mm_utils(w)
    for w in ('psd', 'psd_layout', 'pca_vector', 'mvdr', 'mvdr_stacked', 'mvdr_merl', 'gev', 'gev_lead', 'lcmv', 'ban', 'distortionless',
              'snr_postfilter', 'zero_degree', 'phase_correction', 'condition_covariance', 'apply', 'apply_online', 'ref_channel',
              'mvdr_souden', 'wmwf'):
        E['beamformer.%s' % w] = e_bf(w)
    for n in BF_NAMES:
        E['get_bf_vector[%s]' % n] = e_bf('bf:' + n)
        E['get_bf_vector[%s+ban]' % n] = e_bf('bf:' + n + '+ban')
    for w in ('voiced_unvoiced_split_characteristic', 'ideal_binary_mask', 'wiener_like_mask', 'ideal_ratio_mask', 'ideal_amplitude_mask',
              'phase_sensitive_mask', 'ideal_complex_mask', 'lorenz_mask', 'quantile_mask', 'biased_binary_mask'):
        E['mask.%s' % w] = e_mask(w)
    for w in ('dhtv', 'greedy', 'oracle', 'apply_mapping'):
        E['alignment.%s' % w] = e_align(w)
        if w in ('dhtv', 'greedy', 'oracle'):
            for mt in ('cos', 'euclidean', 'multiply'):     # every documented similarity metric, every run
                E['alignment.%s[%s]' % (w, mt)] = e_align(w, mt)
    for w in ('si_sdr', 'input_sxr', 'output_sxr', 'get_snr', 'set_snr'):
        E['metric.%s' % w] = e_metric(w)
    return E


def eval_entry(rp):
    """rp: {'entry': name, 'argseed': int, 'np_seed': int} -> (fail, key, raised, label, nontrivial, digest)"""
    E = entry_points()
    build = E[rp['entry']]
    rng = np.random.default_rng(rp['argseed'])
    np.random.seed(rp['np_seed'])
    try:
        fn, args, label = build(rng)
    except Exception as e:  # the set-up itself (fitting a model to call predict on) failed: not a C20 observation
        return None, None, 'setup %s: %s' % (type(e).__name__, str(e)[:100]), 'setup failed', False, core.digest(rp['entry'], rp['argseed'])
    fail, ksuf, res, raised = monitored_call(fn, args, rp['np_seed'])
    key = '%s:%s' % (ksuf, rp['entry']) if ksuf else None
    arrs = arrays_in(args)
    nt = fail is None and raised is None and (not arrs or any(a.size > 1 for _, a in arrs))
    dg = core.digest(rp['entry'], *[a for _, a in arrs])
    return fail, key, raised, label, nt, dg


def _case_entry(name, argseed, np_seed):
    rp = {'fn': 'entry', 'entry': name, 'argseed': int(argseed), 'np_seed': int(np_seed)}
    fail, key, raised, label, nt, dg = eval_entry(rp)
    nm = '%s %s' % (name, label)
    return Case(nm, coq=None, pred_fail=('%s: %s' % (name, fail)) if fail else None, key=key, nontrivial=nt, digest_=dg,
                sample={'name': nm, 'raised': raised}, replay=rp, raised=raised, kind='entry/' + name.split('.')[0].split('[')[0])


# ----------------------------------------------------------------------------- histories
CACHING = ['CWMMTrainer', 'CBMMTrainer', 'ComplexWatsonTrainer', 'ComplexBinghamTrainer']
PLAIN = ['CACGMMTrainer', 'GMMTrainer', 'VMFMMTrainer', 'GCACGMMTrainer', 'VMFCACGMMTrainer']
_MMNAME = {'CWMMTrainer': 'cwmm', 'CBMMTrainer': 'cbmm', 'CACGMMTrainer': 'cacgmm', 'GMMTrainer': 'gmm', 'VMFMMTrainer': 'vmfmm',
           'GCACGMMTrainer': 'gcacgmm', 'VMFCACGMMTrainer': 'vmfcacgmm'}


def _make_trainer(cls, ctor):
    import pb_bss.distribution as d
    from pb_bss.distribution.complex_bingham import ComplexBinghamTrainer
    if cls in _MMNAME:
        return mm.trainer_cls(_MMNAME[cls])(**ctor)
    return {'ComplexWatsonTrainer': d.ComplexWatsonTrainer, 'ComplexBinghamTrainer': ComplexBinghamTrainer}[cls](**ctor)


def _history_call(rng, cls, D):
    """one fit call description (arguments) for trainer class cls with feature dimension D"""
    if cls in _MMNAME:
        name = _MMNAME[cls]
        K = 2 if name == 'cbmm' else int(rng.integers(2, 4))
        lead = (int(rng.integers(1, 3)),) if name in mm.INTEGRATION else tuple(int(v) for v in rng.integers(1, 3, int(rng.integers(0, 2))))
        N = int(rng.integers(6, 9)) if name == 'cbmm' else int(rng.integers(2 * K + 2, 12))
        data = mm.make_data(rng, name, K, D, N, lead)
        data.pop('labels')
        opts = mm.sample_options(rng, name, K, N, lead)
        if isinstance(opts.get('weight_constant_axis'), list) and name in mm.INTEGRATION:
            opts['weight_constant_axis'] = tuple(opts['weight_constant_axis'])
        if name == 'cwmm':
            opts.pop('affiliation_eps', None)
        it = 1 if name == 'cbmm' else int(rng.integers(1, 3))
        if rng.random() < 0.2 and 'source_activity_mask' not in opts:
            return dict(data=data, num_classes=K, iterations=it, opts=opts, seed=int(rng.integers(0, 2 ** 31)))
        return dict(data=data, initialization=mm.make_init(rng, K, N, lead), iterations=it, opts=opts, seed=int(rng.integers(0, 2 ** 31)))
    lead = tuple(int(v) for v in rng.integers(1, 3, int(rng.integers(0, 2))))
    N = int(rng.integers(6, 10))
    y = crandn(rng, (*lead, N, D)) + 1.0
    sal = rng.uniform(0.1, 2, size=(*lead, N)) if rng.random() < 0.5 else None
    return dict(y=y, saliency=sal, seed=0)


def _do_fit(T, cls, c):
    np.random.seed(c['seed'])
    if cls in _MMNAME:
        name = _MMNAME[cls]
        kw = dict(c['opts'])
        if 'initialization' in c:
            kw['initialization'] = c['initialization']
        else:
            kw['num_classes'] = c['num_classes']
        if name in mm.INTEGRATION:
            return T.fit(c['data']['observation'], c['data']['embedding'], iterations=c['iterations'], **kw)
        return T.fit(c['data']['y'], iterations=c['iterations'], **kw)
    return T.fit(c['y'], saliency=c['saliency'])


def _dim_of(cls, c):
    if cls in _MMNAME:
        k = 'observation' if _MMNAME[cls] in mm.INTEGRATION else 'y'
        return int(c['data'][k].shape[-1])
    return int(c['y'].shape[-1])


def eval_history(rp):
    """-> (fail, key, coq, label, nontrivial, digest)"""
    rng = np.random.default_rng(rp['argseed'])
    cls = rp['cls']
    caching = cls in CACHING
    dmax = 3 if cls in ('CBMMTrainer', 'ComplexBinghamTrainer') else 4
    D0 = int(rng.integers(2, dmax + 1))
    H = int(rng.integers(0, 6)) if not rp.get('hist_len') else rp['hist_len']
    ctor = {}
    ctor_dim = None
    if rp.get('force_dims'):
        H = len(rp['force_dims']) - 1
    if caching and rng.random() < 0.3 and not rp.get('force_dims'):
        ctor_dim = int(rng.integers(2, dmax + 1))
        ctor['dimension'] = ctor_dim
    if cls in ('CWMMTrainer', 'ComplexWatsonTrainer') and rng.random() < 0.5:
        ctor['max_concentration'] = float(rng.choice([100, 500]))
        ctor['spline_markers'] = int(rng.choice([200, 1000]))
    if cls in ('CBMMTrainer', 'ComplexBinghamTrainer') and rng.random() < 0.4:
        ctor['max_concentration'] = float(rng.choice([200.0, 500.0]))
    calls = []
    same = None
    for i in range(H + 1):
        if i == H and same is not None and rng.random() < 0.3:
            c = copy.deepcopy(same)                       # the probe repeats an earlier fit exactly
        else:
            D = D0 if rng.random() < 0.7 else int(rng.integers(2, dmax + 1))
            if rp.get('force_dims'):
                D = rp['force_dims'][i]
            c = _history_call(rng, cls, D)
        if same is None or rng.random() < 0.5:
            same = c
        calls.append(c)
    for c in calls:
        freeze(c)
    snaps = [snapshot(c) for c in calls]
    T = _make_trainer(cls, ctor)
    accepted, results = [], []
    for c in calls:
        try:
            results.append(_do_fit(T, cls, c))
            accepted.append(True)
        except AssertionError as e:
            results.append(e)
            accepted.append(False)
        except EXPLICIT as e:
            return None, None, None, 'raised %s' % type(e).__name__, False, core.digest(cls, rp['argseed'])
    label = '%s ctor=%s dims=%s accepted=%s' % (cls, ctor, [_dim_of(cls, c) for c in calls], accepted)
    dg = core.digest(cls, rp['argseed'], *[a for c in calls for _, a in arrays_in(c)])
    if any(s != snapshot(c) for s, c in zip(snaps, calls)):
        return 'an argument of a fit call in the history was modified', 'history:mutates:%s' % cls, None, label, False, dg
    # fresh trainer, probe only
    Tf = _make_trainer(cls, ctor)
    try:
        fresh = _do_fit(Tf, cls, calls[-1])
        fresh_ok = True
    except AssertionError as e:
        fresh, fresh_ok = e, False
    dims = [_dim_of(cls, c) for c in calls]
    cached0 = ctor_dim
    for dd, ok in zip(dims[:-1], accepted[:-1]):
        if cached0 is None and ok:
            cached0 = dd
    if caching:
        for i, (dd, ok) in enumerate(zip(dims, accepted)):
            want = ctor_dim if ctor_dim is not None else next((d_ for d_, o_ in zip(dims[:i], accepted[:i]) if o_), None)
            if ok and want is not None and want != dd:
                return ('%s with cached dimension %d accepted a fit with feature dimension %d instead of rejecting it (history dims %s)'
                        % (cls, want, dd, dims[:i])), 'history:accepts:%s' % cls, None, label, False, dg
    if accepted[-1]:
        if not fresh_ok:
            return 'reused trainer accepted a fit the fresh trainer rejects', 'history:%s' % cls, None, label, False, dg
        d = same_result(results[-1], fresh)
        if d:
            return ('after %d earlier fits (dims %s) the reused %s returns a different model than a fresh one: %s'
                    % (H, dims[:-1], cls, d)), 'history:%s' % cls, None, label, False, dg
    else:
        # rejected: allowed only when the cached dimension differs from the requested one
        cached = ctor_dim
        for dd, ok in zip(dims[:-1], accepted[:-1]):
            if cached is None and ok:
                cached = dd
        if cached is None or cached == dims[-1] or not caching:
            if fresh_ok:
                return ('reused %s rejected a fit (dimension %d) although no different dimension is cached (history dims %s)'
                        % (cls, dims[-1], dims[:-1])), 'history:%s' % cls, None, label, False, dg
    coq = None
    if caching:
        cached = getattr(T, 'dimension', None)
        table = None
        sub = T.__dict__.get('complex_watson_trainer') or T.__dict__.get('complex_bingham_trainer')
        if sub is not None:
            table = sub.dimension
        coq = 'check_history %s %s %s %s %s' % (
            'None' if ctor_dim is None else '(Some %d%%nat)' % ctor_dim, core.nlist(dims), core.blist(accepted),
            'None' if cached is None else '(Some %d%%nat)' % cached, 'None' if table is None else '(Some %d%%nat)' % table)
    else:
        if not all(accepted):
            return '%s (no cached dimension) rejected a fit' % cls, 'history:%s' % cls, None, label, False, dg
    return None, None, coq, label, H >= 1, dg


def _case_history(cls, argseed, force_dims=None):
    rp = {'fn': 'history', 'cls': cls, 'argseed': int(argseed)}
    if force_dims:
        rp['force_dims'] = list(force_dims)
    fail, key, coq, label, nt, dg = eval_history(rp)
    return Case('history ' + label, coq=coq, pred_fail=fail, key=key, nontrivial=nt, digest_=dg, sample={'name': 'history ' + label},
                replay=rp, kind='history/' + cls)


# ----------------------------------------------------------------------------- split law (cACGMM)
class StepRecorder:
    """records the E/M steps CACGMMTrainer.fit executes (True = M-step, False = E-step) by wrapping from outside"""

    def __init__(self):
        self.word = []

    def __enter__(self):
        from pb_bss.distribution.cacgmm import CACGMM, CACGMMTrainer
        self.C, self.T = CACGMM, CACGMMTrainer
        self.op, self.om = CACGMM._predict, CACGMMTrainer._m_step
        rec = self

        def p(self_, *a, **k):
            rec.word.append(False)
            return rec.op(self_, *a, **k)

        def m(self_, *a, **k):
            rec.word.append(True)
            return rec.om(self_, *a, **k)
        CACGMM._predict, CACGMMTrainer._m_step = p, m
        return self

    def __exit__(self, *exc):
        self.C._predict, self.T._m_step = self.op, self.om


def eval_split(rp):
    from pb_bss.distribution import CACGMMTrainer
    rng = np.random.default_rng(rp['argseed'])
    n = rp['n']
    K, D = int(rng.integers(2, 4)), int(rng.integers(2, 5))
    lead = tuple(int(v) for v in rng.integers(1, 3, int(rng.integers(0, 3))))
    N = int(rng.integers(2 * K + 2, 16))
    data = mm.make_data(rng, 'cacgmm', K, D, N, lead, separation=float(rng.choice([0.5, 2.0, 8.0])))
    y = data['y']
    init = mm.make_init(rng, K, N, lead, ['positive', 'dirichlet', 'onehot'][int(rng.integers(0, 3))])
    opts = mm.sample_options(rng, 'cacgmm', K, N, lead, with_aligner=bool(rng.random() < 0.3))
    opts['affiliation_eps'] = float(rng.choice([0.0, 1e-10, 1e-3, 1e-2, 1e-2]))      # the clip must bind in some cases
    if n > 20:
        # iteration counts beyond convergence: well separated data, a start near the truth, plain options - EM has
        # numerically converged long before iteration n, and continuing a converged fit must still be the same fit
        K, D, N, lead = 2, 3, 60, ()
        data = mm.make_data(rng, 'cacgmm', K, D, N, lead, separation=8.0)
        y = data['y']
        init = 0.85 * np.eye(K)[np.asarray(data['labels'])].T + 0.15 / K
        opts = {'weight_constant_axis': (-1,)}
    if 'inline_permutation_aligner' in opts and lead[0] % 2 == 0:
        opts.pop('inline_permutation_aligner')
    for a in (y, init):
        a.setflags(write=False)
    freeze(opts)
    label = 'cacgmm split n=%d K=%d D=%d N=%d lead=%s %s' % (n, K, D, N, lead, mm.describe_options(opts))
    dg = core.digest('split', n, y, init, repr(mm.describe_options(opts)))
    T = CACGMMTrainer()
    try:
        with StepRecorder() as rec:
            single = {1: T.fit(y, initialization=init, iterations=1, **opts)}
            for q in range(2, n + 1):
                single[q] = CACGMMTrainer().fit(y, initialization=init, iterations=q, **opts)
            word_n = None
        with StepRecorder() as rec:
            CACGMMTrainer().fit(y, initialization=init, iterations=n, **opts)
            word_n = list(rec.word)
    except EXPLICIT as e:
        return None, None, None, label + ' raised %s' % type(e).__name__, False, dg
    worst = 0.0
    # every continuation pair
    for p in range(1, n):
        for q in range(p + 1, n + 1):
            cont = CACGMMTrainer().fit(y, initialization=single[p], iterations=q - p, **opts)
            d = same_result(cont, single[q])
            if d:
                worst = max(worst, max_diff(cont, single[q]))
                return ('fit(%d) != fit(%d) continued by %d iterations via initialization=<model> (bitwise): %s'
                        % (q, p, q - p, d)), 'split:cacgmm', None, label, False, dg
    # explicitly executed compositions
    comps = []
    if n <= 6:
        for cuts in itertools.product([0, 1], repeat=n - 1):
            parts, cur = [], 1
            for c in cuts:
                if c:
                    parts.append(cur)
                    cur = 1
                else:
                    cur += 1
            parts.append(cur)
            comps.append(parts)
    else:
        comps.append([1] * n)
        for _ in range(6):
            cuts = rng.random(n - 1) < rng.uniform(0.1, 0.6)
            parts, cur = [], 1
            for c in cuts:
                if c:
                    parts.append(cur)
                    cur = 1
                else:
                    cur += 1
            parts.append(cur)
            comps.append(parts)
    coqs = ['check_fit_word %d %s' % (n, core.blist(word_n))]
    for parts in comps:
        with StepRecorder() as rec:
            model = T.fit(y, initialization=init, iterations=parts[0], **opts)
            for m_ in parts[1:]:
                model = T.fit(y, initialization=model, iterations=m_, **opts)
            w = list(rec.word)
        d = same_result(model, single[n])
        if d:
            return ('fit(%d) != consecutive fits %s continued from the returned model: %s' % (n, parts, d)), 'split:cacgmm', None, label, False, dg
        if len(coqs) < 6:
            coqs.append('check_chain_word %d %s %s' % (parts[0], core.nlist(parts[1:]), core.blist(w)))
    if y.tobytes() != data['y'].tobytes():
        return 'observation modified', 'split:mutates', None, label, False, dg
    return None, None, 'allR [%s]' % '; '.join(coqs), label + ' compositions=%d' % len(comps), n >= 2, dg


def _case_split(n, argseed):
    rp = {'fn': 'split', 'n': int(n), 'argseed': int(argseed)}
    fail, key, coq, label, nt, dg = eval_split(rp)
    return Case(label, coq=coq, pred_fail=fail, key=key, nontrivial=nt, digest_=dg, sample={'name': label}, replay=rp, kind='split')


# ----------------------------------------------------------------------------- generator discipline
def eval_rng(rp):
    rng = np.random.default_rng(rp['argseed'])
    name = rp['model']
    K, D, N, lead, data, init, opts, iters = _mm_setup(rng, name)
    opts.pop('source_activity_mask', None)
    freeze(data)
    freeze(init)
    label = 'rng %s K=%d D=%d N=%d lead=%s' % (name, K, D, N, lead)
    dg = core.digest('rng', name, rp['argseed'])
    fn = _fit_fn(name)
    s = rp['np_seed']

    def state():
        st = np.random.get_state()
        return (st[0], st[1].tobytes(), st[2], st[3], st[4])
    try:
        np.random.seed(s)
        m1 = fn(data, num_classes=K, iterations=iters, opts=opts)
        st1 = state()
        np.random.seed(s)
        m2 = fn(data, num_classes=K, iterations=iters, opts=opts)
        # the draw the model says the call makes: one uniform array of the affiliation shape
        np.random.seed(s)
        u = np.random.uniform(size=(*lead, K, N))
        st_draw = state()
        g0 = u / np.einsum('...kn->...n', u)[..., None, :]
        m3 = fn(data, initialization=g0, iterations=iters, opts=opts)
        st3 = state()
        np.random.seed(s + 1)
        m4 = fn(data, num_classes=K, iterations=iters, opts=opts)
    except EXPLICIT as e:
        return None, None, label + ' raised %s' % type(e).__name__, False, dg
    d = same_result(m1, m2)
    if d:
        return 're-seeding np.random does not reproduce fit(num_classes=...): ' + d, 'rng:%s' % name, label, False, dg
    if st1 != st_draw:
        return ('fit(num_classes=...) advances the global generator by something other than one uniform draw of the affiliation shape',
                'rng:%s' % name, label, False, dg)
    d = same_result(m1, m3)
    if d:
        return 'fit(num_classes) differs from fit(initialization = the normalised draw): ' + d, 'rng:%s' % name, label, False, dg
    if st3 != st_draw:
        return 'fit(initialization=array) touched the global generator', 'rng:%s' % name, label, False, dg
    nt = same_result(m1, m4) is not None      # a different seed gives a different model: the draw matters
    return None, None, label, nt, dg


def _case_rng(name, argseed, np_seed):
    rp = {'fn': 'rng', 'model': name, 'argseed': int(argseed), 'np_seed': int(np_seed)}
    fail, key, label, nt, dg = eval_rng(rp)
    return Case(label, coq=None, pred_fail=fail, key=key, nontrivial=nt, digest_=dg, sample={'name': label}, replay=rp, kind='rng/' + name)


# ----------------------------------------------------------------------------- robust case construction
def _safe(fn, kind):
    def wrapped(*a, **k):
        st = a[0].bit_generator.state if a and isinstance(a[0], np.random.Generator) else None
        try:
            return fn(*a, **k)
        except Exception as e:      # an exception escaping the implementation on a path the predicates do not classify
            import traceback
            tb = traceback.format_exc()
            where = [ln.strip() for ln in tb.splitlines() if '/pb_bss/' in ln][-1:] or ['(harness)']
            rp = {'fn': 'crash', 'kind': kind, 'rng_state': st, 'args': [int(v) if isinstance(v, (int, np.integer)) else v
                                                                         for v in (a[1:] if st is not None else a)]}
            return Case('%s crashed' % kind, coq=None, nontrivial=False, digest_=core.digest(kind, repr(rp)[:300]),
                        pred_fail='%s: unclassified %s: %s at %s' % (kind, type(e).__name__, str(e)[:200], where[0][:160]),
                        key='crash:%s:%s' % (kind, type(e).__name__), sample={'name': kind + ' crashed'}, replay=rp, kind='crash')
    return wrapped


def _replay_crash(rp):
    fn = globals()['_case_' + rp['kind']]
    if rp.get('rng_state') is not None:
        g = np.random.default_rng(0)
        g.bit_generator.state = rp['rng_state']
        args = [g] + list(rp['args'])
    else:
        args = list(rp['args'])
    try:
        c = fn(*args)
        return c.pred_fail
    except Exception as e:          # noqa
        return '%s: unclassified %s: %s' % (rp['kind'], type(e).__name__, str(e)[:200])


case_entry = _safe(_case_entry, 'entry')
# ----------------------------------------------------------------------------- the same call in a pristine process
_PRC = [0]


def _pristine_call(rng, cls, D):
    """a tightly concentrated scene: the fitted Watson concentration is decided by the trainer's own max_concentration"""
    K, N = 2, 14
    protos = crandn(rng, (K, D))
    protos /= np.linalg.norm(protos, axis=-1, keepdims=True)
    if cls == 'ComplexWatsonTrainer':
        y = protos[0][None] * np.exp(2j * np.pi * rng.random((N, 1))) + 0.01 * crandn(rng, (N, D))
        return dict(y=y, saliency=None, seed=0)
    lab = np.arange(N) % K
    y = protos[lab] * np.exp(2j * np.pi * rng.random((N, 1))) + 0.01 * crandn(rng, (N, D))
    init = 0.9 * np.eye(K)[lab].T + 0.05
    return dict(data={'y': y}, initialization=init, iterations=2, opts={}, seed=1)


def eval_pristine(rp):
    """this process (which has used many trainers of other configurations by now) against a process that runs only this call"""
    import os
    import pickle
    import subprocess
    import sys
    import tempfile
    rng = np.random.default_rng(rp['argseed'])
    cls, ctor = rp['cls'], dict(rp['ctor'])
    D = int(rp['D'])
    c = _pristine_call(rng, cls, D)
    freeze(c)
    label = 'pristine %s ctor=%s D=%d' % (cls, ctor, D)
    dg = core.digest(cls, rp['argseed'], repr(sorted(ctor.items())), D)
    # another configuration of the same class and dimension first (so the order of use inside this check does not matter)
    other = dict(ctor, max_concentration=500.0 if ctor.get('max_concentration') != 500.0 else 100.0)
    try:
        _do_fit(_make_trainer(cls, other), cls, c)
        here = flat_result(_do_fit(_make_trainer(cls, ctor), cls, c))
    except EXPLICIT as e:
        return None, None, None, label + ' raised %s' % type(e).__name__, False, dg
    with tempfile.TemporaryDirectory() as td:
        fin, fout = os.path.join(td, 'in.pkl'), os.path.join(td, 'out.pkl')
        pickle.dump((cls, ctor, c), open(fin, 'wb'))
        pr = subprocess.run([sys.executable, str(core.VERIF / 'harness' / 'pristine.py'), fin, fout], capture_output=True, text=True,
                            env=dict(os.environ), timeout=300)
        if pr.returncode != 0 or not os.path.exists(fout):
            raise RuntimeError('pristine subprocess failed: ' + pr.stderr[-400:])
        there = pickle.load(open(fout, 'rb'))
    if [p for p, _ in here] != [p for p, _ in there]:
        return 'result structure differs from the pristine process', 'pristine:%s' % cls, None, label, False, dg
    for (pth, x), (_, y) in zip(here, there):
        if x.shape != y.shape or x.dtype != y.dtype:
            return '%s: dtype/shape differs from the pristine process' % pth, 'pristine:%s' % cls, None, label, False, dg
        if x.dtype.kind in 'fc' and x.size:
            if not np.allclose(x, y, rtol=1e-9, atol=1e-12, equal_nan=True):
                return ('%s of %s(%s) differs from the same call in a process that did nothing else: %s vs %s' % (
                    pth, cls, ctor, np.ravel(x)[:3], np.ravel(y)[:3])), 'pristine:%s' % cls, None, label, False, dg
    return None, None, None, label, True, dg


def _case_pristine(cls, argseed, ctor, D):
    rp = {'fn': 'pristine', 'cls': cls, 'argseed': int(argseed), 'ctor': ctor, 'D': int(D)}
    fail, key, coq, label, nt, dg = eval_pristine(rp)
    return Case(label, coq=coq, pred_fail=fail, key=key, nontrivial=nt, digest_=dg, sample={'name': label}, replay=rp, kind='pristine/' + cls)


case_history = _safe(_case_history, 'history')
case_pristine = _safe(_case_pristine, 'pristine')
case_split = _safe(_case_split, 'split')
case_rng = _safe(_case_rng, 'rng')


# -----------------------------------------------------------------------------
def cases(rng, tier):
    q = tier == 'quick'
    out = []
    names = list(entry_points())
    for rep in range(2 if q else 20):
        for nm in names:
            if nm.startswith('cbmm') and rep >= 6:
                continue
            out.append(case_entry(nm, rng.integers(0, 2 ** 31), rng.integers(0, 2 ** 31)))
    for rep in range(4 if q else 40):
        for cls in CACHING + PLAIN:
            if cls in ('CBMMTrainer',) and rep >= (2 if q else 12):
                continue
            out.append(case_history(cls, rng.integers(0, 2 ** 31)))
    # a trainer built WITHOUT a dimension meets recordings with another number of channels (2 -> 3 -> 2, 3 -> 2 -> 2):
    # cached tables must never be reused for another dimension (explicit refusal or fresh result, never a stale one)
    for cls in CACHING:
        for dims in ([2, 3, 2], [3, 2, 2]) if q else ([2, 3, 2], [3, 2, 2], [2, 3, 3], [3, 2, 3, 2]):
            out.append(case_history(cls, rng.integers(0, 2 ** 31), dims))
    # the same call in a process that has done nothing else (state shared between trainer INSTANCES shows only this way)
    for i in range(4 if q else 12):
        cls = ['ComplexWatsonTrainer', 'CWMMTrainer'][i % 2]
        out.append(case_pristine(cls, rng.integers(0, 2 ** 31), {'max_concentration': [37.0, 23.0, 61.0, 150.0][(i // 2) % 4]}, 2 + (i // 2) % 3))
    for n in ([2, 3, 3, 4, 4, 5, 5, 6, 6, 6, 24, 30, 36] if q else [2, 3, 4, 5, 6, 6] * 5 + [7, 8, 9, 10, 11, 12, 13, 14, 15, 16, 17, 18, 19, 20, 20, 24, 30, 36, 40, 48]):
        out.append(case_split(n, rng.integers(0, 2 ** 31)))
    for rep in range(2 if q else 12):
        for name in mm.MODELS:
            if name == 'cbmm' and rep >= 4:
                continue
            out.append(case_rng(name, rng.integers(0, 2 ** 31), rng.integers(0, 2 ** 31)))
    return out


def search(rng, tier, hints):
    names = list(entry_points())
    for i in range(150 if tier == 'quick' else 600):
        r = i % 4
        if r == 0:
            c = case_entry(names[int(rng.integers(0, len(names)))], rng.integers(0, 2 ** 31), rng.integers(0, 2 ** 31))
        elif r == 1:
            c = case_history((CACHING + PLAIN)[int(rng.integers(0, 9))], rng.integers(0, 2 ** 31))
        elif r == 2:
            c = case_split(int(rng.integers(2, 7)), rng.integers(0, 2 ** 31))
        else:
            c = case_rng(mm.MODELS[int(rng.integers(0, 7))], rng.integers(0, 2 ** 31), rng.integers(0, 2 ** 31))
        if c.pred_fail:
            return [c]
    return []


def replay(payload):
    rp = payload['replay']
    fn = rp['fn']
    if fn == 'crash':
        return _replay_crash(rp)
    if fn == 'entry':
        return eval_entry(rp)[0]
    if fn == 'history':
        return eval_history(rp)[0]
    if fn == 'pristine':
        return eval_pristine(rp)[0]
    if fn == 'split':
        return eval_split(rp)[0]
    return eval_rng(rp)[0]
