"""C12 -- GEV and PCA beamformers maximise their Rayleigh quotients; BAN only rescales
(get_gev_vector, get_pca_vector, get_pca_rank_one_estimate, get_gev_rank_one_estimate,
blind_analytic_normalization; pb_bss/extraction/beamformer.py, beamformer_wrapper.py).

Correspondence: the eigen-solvers are oracles.  Per bin the harness calls the same routine on the same
operands (scipy.linalg.eigh / eig (Px, Pn), np.linalg.eigh(Phi)); Coq evaluates the written contract
(A W = B W diag lam, W V = I; Phi U = U diag lam, U^H U = U U^H = I, ascending) and the model's selection /
scaling, and compares w w^H (phase free) with the implementation's vector.  Rank-one estimates and BAN are
compared entry by entry.
Predicates (independent NumPy): Rayleigh quotient of the result = largest (generalised) eigenvalue computed
through a Cholesky reduction, not exceeded by random probes, perturbations of the result, or any other
beamformer get_bf_vector produces; PCA norms per scaling and common direction; rank-one estimate Hermitian /
rank one / trace preserving / equal to an exactly rank-one target; BAN = positive real factor, homogeneous,
SNR kept; stack == stack of slices; inputs unmodified."""
import numpy as np
from harness import core
from harness.core import Case
from harness.props.c11 import herm, crandn, rand_hpd, rank1_psd, pick_bins, relerr, frozen

PID = 'C12'
REQUIRES = ['Run.C12', 'Model.Beamformer']
RULE = ('Hermitian PSD targets (full rank, low rank, exactly rank one) and HPD noise PSDs with condition number '
        '1..1e6, D 2..8, 0..3 leading axes, use_eig in {False, True}, scalings None/trace/eigenvalue; probes: random, '
        'perturbed optimum, every other get_bf_vector beamformer; non-trivial: D>=2, complex non-diagonal matrices, '
        'largest eigenvalue simple; distinct by SHA-1 of inputs and options')
NOT_PROVED = ('binary64 rounding (2^-30 on compared quantities, 2^-22 on eigen-solver contract residuals); the eigen-solvers '
              'are oracles whose contract is evaluated per bin; the Cython GEV variant is not built and not covered')
ASSUMPTIONS = ['c_gev_available / c_eig_available are False in this environment (python fallback _get_gev_vector)']
SHARD = 10

def laid_out(arrs, layout):
    """memory layout of the caller's arrays is part of the input: 'C' read-only C order (default), 'F' read-only with the
    last two axes stored transposed (Fortran order per matrix, e.g. from scipy.io.loadmat or a Hermitian-transposed view),
    'Fw' the same but writable, so that an in-place write by LAPACK (overwrite_a) is not stopped by the read-only flag"""
    out = []
    for a in arrs:
        a = np.array(a)
        if layout in ('F', 'Fw') and a.ndim >= 2:
            a = np.ascontiguousarray(a.swapaxes(-1, -2)).swapaxes(-1, -2)
        if layout != 'Fw':
            a.setflags(write=False)
        out.append(a)
    return out


OTHER_NAMES = ['pca', 'mvdr_souden', 'rank1_pca+mvdr_souden', 'rank1_gev+mvdr_souden', 'wmwf', 'rank1_pca+wmwf',
               'rank1_gev+wmwf', 'pca+mvdr', 'scaled_gev_atf+mvdr', 'rank1_pca+gev', 'rank1_gev+gev', 'ch0', 'ch1',
               'mvdr_souden+ban', 'pca+ban']


def rand_psd(rng, lead, D, kind, scale):
    if kind == 'rank1':
        return rank1_psd(rng, lead, D, scale)[0]
    if kind == 'low':
        r = int(rng.integers(1, D))
        a = crandn(rng, *lead, D, r)
        A = a @ herm(a) * scale
        return 0.5 * (A + herm(A))
    return rand_hpd(rng, lead, D, scale=scale)


def quot(v, A, B):
    n = np.einsum('...a,...ab,...b->...', v.conj(), A, v).real
    d = np.einsum('...a,...ab,...b->...', v.conj(), B, v).real
    return n / d


def lam_max_gen(Px, Pn):
    """largest generalised eigenvalue through a Cholesky reduction (independent of scipy.linalg.eigh(A, B))"""
    L = np.linalg.cholesky(Pn)
    Li = np.linalg.inv(L)
    M = Li @ Px @ herm(Li)
    return np.linalg.eigvalsh(0.5 * (M + herm(M)))[..., -1]


def outer(v):
    return v[..., :, None] * v[..., None, :].conj()


# ----------------------------------------------------------------------------- GEV
_GV = [0]


def make_gev(rng, tier, idx):
    D = int(rng.integers(2, 9))
    nlead = int(rng.choice([0, 1, 1, 1, 2, 3]))
    lead = tuple(int(v) for v in rng.integers(1, 5 if nlead > 1 else (33 if tier == 'thorough' else 13), nlead))
    _GV[0] += 1
    if _GV[0] % 9 == 0:
        # realistic numbers of bins: one long frequency axis (STFT size 2048 / 4096) or channels x bins stacked
        D = int(rng.integers(2, 4))
        lead = [(1025,), (2, 513), (int(rng.integers(1030, 2200)),)][(_GV[0] // 9) % 3]
    scale = 10.0 ** rng.integers(-3, 4)
    kind = str(rng.choice(['full', 'full', 'rank1', 'low']))
    Px = rand_psd(rng, lead, D, kind, scale)
    Pn = rand_hpd(rng, lead, D, scale=scale * 10.0 ** rng.uniform(-1, 1))
    if _GV[0] % 7 == 3:
        # a real symmetric target PSD handed over as a REAL (float64) array next to a complex noise PSD
        a_ = rng.normal(size=(*lead, D, D + 1))
        Px = (a_ @ np.swapaxes(a_, -1, -2)) * scale
        kind = 'real-typed'
    use_eig = bool(rng.random() < 0.4)
    rp = {'layout': str(rng.choice(['C', 'C', 'F', 'Fw'])), 'fn': 'gev', 'Px': Px, 'Pn': Pn, 'use_eig': use_eig, 'kind': kind, 'probe_seed': int(rng.integers(1 << 30)),
          'kw_default': bool(rng.random() < 0.2) and not use_eig}
    fail, key, coq, raised = eval_gev(rp, rng)
    name = 'gev %s lead=%s D=%d use_eig=%s' % (kind, lead, D, use_eig)
    return Case(name, coq=coq, pred_fail=fail, key=key, nontrivial=True, digest_=core.digest(Px, Pn, use_eig),
                sample={'name': name, 'Px': core.small(Px, 3)}, replay=rp, raised=raised,
                kind='gev/%s/%s' % (kind, 'eig' if use_eig else 'eigh'))


def eval_gev(rp, rng=None):
    import scipy.linalg as sl
    from pb_bss.extraction.beamformer import get_gev_vector
    from pb_bss.extraction.beamformer_wrapper import get_bf_vector
    Px, Pn = laid_out([rp['Px'], rp['Pn']], rp.get('layout', 'C'))
    use_eig = rp['use_eig']
    D = Px.shape[-1]
    lead = Px.shape[:-2]
    xb, nb = Px.tobytes(), Pn.tobytes()
    tag = 'gev:%s' % ('eig' if use_eig else 'eigh')
    try:
        w = get_gev_vector(Px, Pn) if rp.get('kw_default') else get_gev_vector(Px, Pn, use_eig=use_eig)
    except Exception as e:
        return 'get_gev_vector raised %s: %s' % (type(e).__name__, str(e)[:160]), '%s:raises:%s' % (tag, type(e).__name__), None, None
    if Px.tobytes() != xb or Pn.tobytes() != nb:
        return 'caller array modified', 'gev:mutates', None, None
    if w.shape != lead + (D,) or not np.all(np.isfinite(w)):
        return 'result shape %s / non-finite' % (w.shape,), '%s:shape' % tag, None, None
    lmax = lam_max_gen(Px, Pn)
    q = quot(w, Px, Pn)
    tol = 1e-7
    if (np.abs(q - lmax) > tol * np.abs(lmax)).any():
        i = int(np.argmax(np.abs(q - lmax) / np.abs(lmax)))
        return ('output SNR w^H Px w / w^H Pn w = %.9g differs from the largest generalised eigenvalue %.9g'
                % (q.ravel()[i], lmax.ravel()[i]), '%s:lammax' % tag, _coq_gev(Px, Pn, w, use_eig, rng), None)
    # not exceeded by probes
    prng = np.random.default_rng(rp['probe_seed'])
    probes = [('random', crandn(prng, *lead, D)) for _ in range(4)]
    for t in (1e-3, 1e-1):
        probes.append(('perturbed', w + t * np.linalg.norm(w, axis=-1, keepdims=True) * crandn(prng, *lead, D) / np.sqrt(D)))
    if len(lead) == 1:
        for nm in OTHER_NAMES:
            if nm.startswith('ch') and int(nm[2:]) >= D:
                continue
            try:
                probes.append((nm, get_bf_vector(nm, Px, Pn)))
            except Exception:
                pass      # names that raise are C13's business
    for nm, v in probes:
        if v.shape != w.shape:
            continue      # wrong-shape results of other names are C13's business
        qv = quot(v.astype(complex), Px, Pn)
        ok = np.isfinite(qv)
        if (qv[ok] > q[ok] * (1 + tol) + 1e-300).any():
            return ('probe "%s" has a larger output SNR than the GEV vector (%.9g > %.9g)'
                    % (nm, np.max(qv[ok] - q[ok]) + q[ok][np.argmax(qv[ok] - q[ok])], q[ok][np.argmax(qv[ok] - q[ok])]),
                    '%s:maximal' % tag, _coq_gev(Px, Pn, w, use_eig, rng), None)
    # stack == stack of slices (phase free)
    for ix in pick_bins(prng, list(np.ndindex(*lead)), 3):
        ws = get_gev_vector(Px[ix], Pn[ix], use_eig=use_eig)
        if relerr(outer(ws), outer(w[ix])) > 1e-7:
            return 'stacked result differs from the per-problem result at %s' % (ix,), 'gev:stack', None, None
    f = core.container_variants(lambda x_, n_: get_gev_vector(x_, n_, use_eig=use_eig), [Px, Pn], w,
                                lambda r, e: np.shape(r) == np.shape(e) and relerr(outer(np.asarray(r)), outer(e)) <= 1e-6,
                                which=('stale',))
    if f:
        return 'get_gev_vector: ' + f, 'gev:container', None, None
    return None, None, _coq_gev(Px, Pn, w, use_eig, rng), None


def _coq_gev(Px, Pn, w, use_eig, rng):
    import scipy.linalg as sl
    D = Px.shape[-1]
    lead = Px.shape[:-2]
    parts = []
    for ix in pick_bins(rng, list(np.ndindex(*lead))):
        lam, W = (sl.eig if use_eig else sl.eigh)(Px[ix], Pn[ix])      # the oracle: same routine, same operands
        V = np.linalg.inv(W)
        if use_eig:
            parts.append('check_gev_eig %d %s %s %s %s %s %s' % (D, core.cmat(Px[ix]), core.cmat(Pn[ix]), core.cmat(W),
                                                                 core.cmat(V), core.clist(lam), core.clist(w[ix])))
        else:
            parts.append('check_gev %d %s %s %s %s %s %s' % (D, core.cmat(Px[ix]), core.cmat(Pn[ix]), core.cmat(W),
                                                             core.cmat(V), core.flist(lam), core.clist(w[ix])))
    return 'allR [' + '; '.join(parts) + ']'


# ----------------------------------------------------------------------------- PCA
SC = {None: 'ScNone', 'trace': 'ScTrace', 'eigenvalue': 'ScEig'}


def make_pca(rng, tier, idx):
    D = int(rng.integers(2, 9))
    nlead = int(rng.choice([0, 1, 1, 2, 3]))
    lead = tuple(int(v) for v in rng.integers(1, 5 if nlead > 1 else (33 if tier == 'thorough' else 13), nlead))
    kind = str(rng.choice(['full', 'full', 'rank1', 'low']))
    Phi = rand_psd(rng, lead, D, kind, 10.0 ** rng.integers(-3, 4))
    rp = {'layout': str(rng.choice(['C', 'C', 'F', 'Fw'])), 'fn': 'pca', 'Phi': Phi, 'kind': kind, 'probe_seed': int(rng.integers(1 << 30))}
    fail, key, coq, raised = eval_pca(rp, rng)
    name = 'pca %s lead=%s D=%d' % (kind, lead, D)
    return Case(name, coq=coq, pred_fail=fail, key=key, nontrivial=True, digest_=core.digest(Phi),
                sample={'name': name, 'Phi': core.small(Phi, 3)}, replay=rp, raised=raised, kind='pca/%s' % kind)


def eval_pca(rp, rng=None):
    from pb_bss.extraction.beamformer import get_pca_vector
    Phi, = laid_out([rp['Phi']], rp.get('layout', 'C'))
    D = Phi.shape[-1]
    lead = Phi.shape[:-2]
    pb = Phi.tobytes()
    out = {}
    for sc in (None, 'trace', 'eigenvalue'):
        try:
            out[sc] = get_pca_vector(Phi) if sc is None else get_pca_vector(Phi, scaling=sc)
        except Exception as e:
            return ('get_pca_vector(scaling=%r) raised %s: %s' % (sc, type(e).__name__, str(e)[:160]),
                    'pca:raises:%s:%s' % (sc, type(e).__name__), None, None)
        if out[sc].shape != lead + (D,) or not np.all(np.isfinite(out[sc])):
            return 'result shape %s / non-finite (scaling=%r)' % (out[sc].shape, sc), 'pca:shape:%s' % sc, None, None
    if Phi.tobytes() != pb:
        return 'caller array modified', 'pca:mutates', None, None
    ev = np.linalg.eigvalsh(Phi)
    lmax = ev[..., -1]
    tr = np.trace(Phi, axis1=-1, axis2=-2).real
    eye = np.broadcast_to(np.eye(D), Phi.shape)
    tol = 1e-8
    v = out[None]
    q = quot(v, Phi, eye)
    if (np.abs(q - lmax) > tol * np.abs(lmax)).any():
        return ('Rayleigh quotient of the PCA vector %.9g differs from the largest eigenvalue %.9g'
                % (q.ravel()[0], lmax.ravel()[0]), 'pca:lammax', _coq_pca(Phi, out, rng), None)
    prng = np.random.default_rng(rp['probe_seed'])
    for k in range(6):
        p = crandn(prng, *lead, D) if k < 4 else v + 10.0 ** (-k + 3) * crandn(prng, *lead, D) / np.sqrt(D)
        if (quot(p, Phi, eye) > q * (1 + tol)).any():
            return 'a probe vector has a larger Rayleigh quotient than the PCA vector', 'pca:maximal', _coq_pca(Phi, out, rng), None
    want = {None: np.ones(lead), 'trace': np.sqrt(tr), 'eigenvalue': lmax}
    for sc in (None, 'trace', 'eigenvalue'):
        n = np.linalg.norm(out[sc], axis=-1)
        if (np.abs(n - want[sc]) > 1e-8 * np.maximum(np.abs(want[sc]), 1e-300)).any():
            return ('scaling=%r: |w| = %.9g, expected %.9g' % (sc, n.ravel()[0], want[sc].ravel()[0]),
                    'pca:norm:%s' % sc, _coq_pca(Phi, out, rng), None)
        # positive real multiple of the unit-norm vector
        fac = np.einsum('...d,...d->...', v.conj(), out[sc])
        if (np.abs(fac.imag) > 1e-8 * np.abs(fac)).any() or (fac.real <= 0).any() or relerr(fac[..., None] * v, out[sc]) > 1e-8:
            return 'scaling=%r is not a positive real multiple of the unit-norm eigenvector' % (sc,), 'pca:factor:%s' % sc, None, None
    for ix in pick_bins(prng, list(np.ndindex(*lead)), 3):
        for sc in (None, 'trace', 'eigenvalue'):
            ws = get_pca_vector(Phi[ix], scaling=sc)
            if relerr(outer(ws), outer(out[sc][ix])) > 1e-8:
                return 'stacked result differs from the per-problem result at %s' % (ix,), 'pca:stack', None, None
    for sc in (None, 'trace', 'eigenvalue'):
        f = core.container_variants(lambda p_: get_pca_vector(p_, scaling=sc), [Phi], out[sc],
                                    lambda r, e: np.shape(r) == np.shape(e) and relerr(outer(np.asarray(r)), outer(e)) <= 1e-7,
                                    which=('stale',))
        if f:
            return 'get_pca_vector(scaling=%r): %s' % (sc, f), 'pca:container', None, None
    return None, None, _coq_pca(Phi, out, rng), None


def _coq_pca(Phi, out, rng):
    D = Phi.shape[-1]
    lead = Phi.shape[:-2]
    parts = []
    scs = [None, 'trace', 'eigenvalue']
    for n, ix in enumerate(pick_bins(rng, list(np.ndindex(*lead)))):
        lam, U = np.linalg.eigh(Phi[ix])
        sc = scs[n % 3] if rng is None else scs[int(rng.integers(0, 3))]
        parts.append('check_pca %d %s %s %s %s %s' % (D, SC[sc], core.cmat(Phi[ix]), core.cmat(U), core.flist(lam),
                                                      core.clist(out[sc][ix])))
    return 'allR [' + '; '.join(parts) + ']'


# ----------------------------------------------------------------------------- rank-one estimates
def make_rank1(rng, tier, idx):
    D = int(rng.integers(2, 9))
    nlead = int(rng.choice([0, 1, 1, 2]))
    lead = tuple(int(v) for v in rng.integers(1, 5 if nlead > 1 else 13, nlead))
    scale = 10.0 ** rng.integers(-3, 4)
    kind = str(rng.choice(['full', 'rank1', 'rank1', 'low']))
    cov = rand_psd(rng, lead, D, kind, scale)
    Pn = rand_hpd(rng, lead, D, scale=scale * 10.0 ** rng.uniform(-1, 1))
    which = str(rng.choice(['pca', 'gev']))
    kw = {}
    if which == 'pca' and rng.random() < 0.5:
        kw = {'scaling': str(rng.choice(['trace', 'eigenvalue']))}
    if which == 'gev' and rng.random() < 0.4:
        kw = {'use_eig': True}
    rp = {'layout': str(rng.choice(['C', 'C', 'F', 'Fw'])), 'fn': 'rank1', 'cov': cov, 'Pn': Pn, 'which': which, 'kw': kw, 'kind': kind}
    fail, key, coq, raised = eval_rank1(rp, rng)
    name = 'rank1_%s %s lead=%s D=%d %s' % (which, kind, lead, D, kw)
    return Case(name, coq=coq, pred_fail=fail, key=key, nontrivial=True, digest_=core.digest(cov, Pn, which, sorted(kw.items())),
                sample={'name': name, 'cov': core.small(cov, 3)}, replay=rp, raised=raised, kind='rank1/%s/%s' % (which, kind))


def eval_rank1(rp, rng=None):
    from pb_bss.extraction.beamformer import get_pca_vector, get_gev_vector
    from pb_bss.extraction import beamformer_wrapper as bw
    cov, Pn = laid_out([rp['cov'], rp['Pn']], rp.get('layout', 'C'))
    which, kw, kind = rp['which'], dict(rp['kw']), rp['kind']
    D = cov.shape[-1]
    lead = cov.shape[:-2]
    cb, nb = cov.tobytes(), Pn.tobytes()
    tag = 'rank1:%s' % which
    try:
        if which == 'pca':
            R = bw.get_pca_rank_one_estimate(cov, **kw)
            a = get_pca_vector(cov, **kw)
            wg = None
        else:
            R = bw.get_gev_rank_one_estimate(cov, Pn, **kw)
            wg = get_gev_vector(cov, Pn, **kw)
            a = bw._get_gev_atf_vector(cov, Pn, **kw)
    except Exception as e:
        return '%s estimate raised %s: %s' % (which, type(e).__name__, str(e)[:160]), '%s:raises:%s' % (tag, type(e).__name__), None, None
    if cov.tobytes() != cb or Pn.tobytes() != nb:
        return 'caller array modified', 'rank1:mutates', None, None
    if R.shape != cov.shape or not np.all(np.isfinite(R)):
        return 'result shape %s / non-finite' % (R.shape,), '%s:shape' % tag, None, None
    sc = np.abs(R).max(axis=(-1, -2))
    if (np.abs(R - herm(R)).max(axis=(-1, -2)) > 1e-9 * sc).any():
        return 'rank-one estimate is not Hermitian', '%s:hermitian' % tag, _coq_rank1(cov, Pn, a, wg, R, rng), None
    sv = np.linalg.svd(R, compute_uv=False)
    if (sv[..., 1] > 1e-9 * sv[..., 0]).any():
        return 'estimate has rank > 1 (second singular value %.3g of %.3g)' % (sv[..., 1].max(), sv[..., 0].max()), '%s:rank' % tag, None, None
    t0, t1 = np.trace(cov, axis1=-1, axis2=-2), np.trace(R, axis1=-1, axis2=-2)
    if (np.abs(t0 - t1) > 1e-9 * np.abs(t0)).any():
        return 'trace not preserved: %s vs %s' % (t1.ravel()[0], t0.ravel()[0]), '%s:trace' % tag, _coq_rank1(cov, Pn, a, wg, R, rng), None
    if kind == 'rank1' and relerr(R, cov) > 1e-6:
        return ('exactly rank-one target is not recovered (rel dev %.3g): the estimated direction is not the steering direction'
                % relerr(R, cov), '%s:recovers' % tag, _coq_rank1(cov, Pn, a, wg, R, rng), None)
    for ix in pick_bins(np.random.default_rng(7), list(np.ndindex(*lead)), 2):
        Rs = bw.get_pca_rank_one_estimate(cov[ix], **kw) if which == 'pca' else bw.get_gev_rank_one_estimate(cov[ix], Pn[ix], **kw)
        if relerr(Rs, R[ix]) > 1e-7:
            return 'stacked result differs from the per-problem result at %s' % (ix,), 'rank1:stack', None, None
    f = core.container_variants(lambda c_, n_: (bw.get_pca_rank_one_estimate(c_, **kw) if which == 'pca'
                                                 else bw.get_gev_rank_one_estimate(c_, n_, **kw)), [cov, Pn], R,
                                lambda r, e: np.shape(r) == np.shape(e) and relerr(np.asarray(r), e) <= 1e-6, which=('stale',))
    if f:
        return 'rank-one estimate (%s): %s' % (which, f), 'rank1:container', None, None
    return None, None, _coq_rank1(cov, Pn, a, wg, R, rng), None


def _coq_rank1(cov, Pn, a, wg, R, rng):
    D = cov.shape[-1]
    lead = cov.shape[:-2]
    parts = []
    for ix in pick_bins(rng, list(np.ndindex(*lead))):
        parts.append('check_rank1 %d %s %s %s' % (D, core.cmat(cov[ix]), core.clist(a[ix]), core.cmat(R[ix])))
        if wg is not None:
            parts.append('check_gev_atf %d %s %s %s' % (D, core.cmat(Pn[ix]), core.clist(wg[ix]), core.clist(a[ix])))
    return 'allR [' + '; '.join(parts) + ']'


# ----------------------------------------------------------------------------- BAN
_BN = [0]


def make_ban(rng, tier, idx):
    D = int(rng.integers(2, 9))
    nlead = int(rng.choice([0, 1, 1, 2, 3]))
    lead = tuple(int(v) for v in rng.integers(1, 5 if nlead > 1 else 13, nlead))
    Pn = rand_hpd(rng, lead, D)
    w = crandn(rng, *lead, D) * 10.0 ** rng.integers(-3, 4)
    r = rng.random()
    if r < 0.15 and lead:
        w[tuple(0 for _ in lead)] = 0       # a zero vector: the `where=denominator != 0` branch
    elif r < 0.3:
        w = w.real.astype(float)            # real-valued input (e.g. the unit vectors of 'chN')
    _BN[0] += 1
    if _BN[0] % 4 == 0:
        w = w * 1e-9 / max(np.abs(w).max(), 1e-300)          # a tiny probe vector: w^H Phi_nn w far below machine epsilon
    elif _BN[0] % 4 == 2:
        Pn = Pn * 1e-18                                       # a very quiet noise PSD
    s = complex(10.0 ** rng.uniform(-3, 3) * np.exp(2j * np.pi * rng.random()))
    Px = rand_psd(rng, lead, D, 'full', 1.0)
    rp = {'layout': str(rng.choice(['C', 'C', 'F', 'Fw'])), 'fn': 'ban', 'w': w, 'Pn': Pn, 'Px': Px, 's': s}
    fail, key, coq, raised = eval_ban(rp, rng)
    name = 'ban lead=%s D=%d %s' % (lead, D, w.dtype)
    return Case(name, coq=coq, pred_fail=fail, key=key, nontrivial=True, digest_=core.digest(w, Pn),
                sample={'name': name, 'w': core.small(w, 3)}, replay=rp, raised=raised, kind='ban')


def eval_ban(rp, rng=None):
    from pb_bss.extraction.beamformer import blind_analytic_normalization as ban
    w, Pn, Px = laid_out([rp['w'], rp['Pn'], rp['Px']], rp.get('layout', 'C'))
    s = rp['s']
    D = w.shape[-1]
    lead = w.shape[:-1]
    wb, nb = w.tobytes(), Pn.tobytes()
    try:
        out = ban(w, Pn)
    except Exception as e:
        return 'blind_analytic_normalization raised %s: %s' % (type(e).__name__, str(e)[:160]), 'ban:raises:%s' % type(e).__name__, None, None
    if w.tobytes() != wb or Pn.tobytes() != nb:
        return 'caller array modified', 'ban:mutates', None, None
    if out.shape != w.shape or not np.all(np.isfinite(out)):
        return 'result shape %s / non-finite' % (out.shape,), 'ban:shape', None, None
    wc = w.astype(complex)
    y = np.einsum('...ab,...b->...a', Pn, wc)
    den = np.einsum('...a,...a->...', wc.conj(), y).real
    nz = den > 0
    g = np.zeros(lead)
    g[nz] = np.sqrt(np.einsum('...a,...a->...', y.conj(), y).real[nz]) / den[nz]
    if relerr(out, g[..., None] * wc) > 1e-9:
        return ('BAN is not multiplication by the positive real factor sqrt(w^H Pn Pn w)/(w^H Pn w) (rel dev %.3g)'
                % relerr(out, g[..., None] * wc), 'ban:factor', _coq_ban(Pn, wc, out, rng), None)
    out2 = ban(s * wc, Pn)
    if relerr(out2, (s / abs(s)) * out) > 1e-9:
        return 'BAN result depends on the magnitude of the input vector', 'ban:homogeneous', None, None
    if nz.all():
        q0, q1 = np.einsum('...a,...ab,...b->...', wc.conj(), Px, wc).real / den, None
        q1 = (np.einsum('...a,...ab,...b->...', out.conj(), Px, out).real
              / np.einsum('...a,...ab,...b->...', out.conj(), Pn, out).real)
        if (np.abs(q0 - q1) > 1e-8 * np.abs(q0)).any():
            return 'BAN changes the output SNR', 'ban:snr', None, None
    for ix in pick_bins(np.random.default_rng(5), list(np.ndindex(*lead)), 2):
        if relerr(ban(w[ix], Pn[ix]), out[ix]) > 1e-9 and np.abs(out[ix]).max() > 0:
            return 'stacked result differs from the per-problem result at %s' % (ix,), 'ban:stack', None, None
    f = core.container_variants(lambda w_, n_: ban(w_, n_), [w, Pn], out,
                                lambda r, e: np.shape(r) == np.shape(e) and relerr(np.asarray(r), e) <= 1e-8, which=('stale',))
    if f:
        return 'blind_analytic_normalization: ' + f, 'ban:container', None, None
    return None, None, _coq_ban(Pn, wc, out, rng), None


def _coq_ban(Pn, wc, out, rng):
    D = wc.shape[-1]
    lead = wc.shape[:-1]
    idxs = list(np.ndindex(*lead))
    sel = pick_bins(rng, idxs)
    if idxs and idxs[0] not in sel:
        sel = [idxs[0]] + sel[:2]       # the possibly-zero vector
    parts = ['check_ban %d %s %s %s' % (D, core.cmat(Pn[ix]), core.clist(wc[ix]), core.clist(out[ix])) for ix in sel]
    return 'allR [' + '; '.join(parts) + ']'


# ----------------------------------------------------------------------------- driver
def _make(rng, tier, i):
    k = i % 10
    if k < 4:
        return make_gev(rng, tier, i)
    if k < 6:
        return make_pca(rng, tier, i)
    if k < 8:
        return make_rank1(rng, tier, i)
    return make_ban(rng, tier, i)


def cases(rng, tier):
    n = 100 if tier == 'quick' else 1000
    return [_make(rng, tier, i) for i in range(n)]


def search(rng, tier, hints):
    out = []
    for i in range(300 if tier == 'quick' else 2000):
        c = _make(rng, 'thorough', i)
        if c.pred_fail:
            out.append(c)
            break
    return out


def replay(payload):
    rp = payload['replay']
    return {'gev': eval_gev, 'pca': eval_pca, 'rank1': eval_rank1, 'ban': eval_ban}[rp['fn']](rp)[0]
