"""C03 -- the true partition of separable data is a stable EM fixed point.
Predicate (the property itself, on the implementation): scenes drawn from the stated domain (K 2..4, D K..8, prototypes
with pairwise |cos| <= 0.3, perturbation <= 1e-2, class sizes >= D+2, per-frame complex gains, blurred true start that
keeps the true class largest, 1..20 iterations, all seven models): MAP class = true class for every observation and
the fitted class parameters point at the prototypes.  Correspondence: the exact-case step quantities of the theorems
(rank-one scatter, quadratic form c2 + (1-c2)/eps under the implementation's own eigenbasis) evaluated through the
C08 checks on scenes from this domain."""
import numpy as np
from harness import core, mm
from harness.core import Case
from harness.props import c08

PID = 'C03'
REQUIRES = ['Run.C08', 'Run.C01']
RULE = ('scenes from the property domain; non-trivial: K >= 2 prototypes with some pairwise |cos| > 0.02, unequal class sizes, '
        'non-unit gains, blur > 0; distinct by SHA-1 of the scene')
NOT_PROVED = ('perturbed data, blurred starts and iterations >= 2 need eigenvector perturbation bounds: those clauses are explored '
              '(the property predicate on every generated scene), only the exact one-step case is proved')
ASSUMPTIONS = ['default trainer options; integration models use the same partition for both streams']
SHARD = 40
TINY = float(np.finfo(np.float64).tiny)


def prototypes(rng, K, D, complex_):
    """unit vectors with pairwise |cos| <= 0.3, not orthogonal in general"""
    for _ in range(200):
        a = (mm.crandn(rng, (D, D)) if complex_ else rng.normal(size=(D, D)))
        q, _ = np.linalg.qr(a)
        P = q[:, :K].T                                   # orthonormal rows
        mix = (mm.crandn(rng, (K, D)) if complex_ else rng.normal(size=(K, D))) * float(rng.uniform(0.0, 0.25))
        P = P + mix
        P = P / np.linalg.norm(P, axis=-1, keepdims=True)
        G = np.abs(P.conj() @ P.T) - np.eye(K)
        if G.max() <= 0.3:
            return P, float(G.max())
    P = q[:, :K].T
    return P, 0.0


_C3 = [0]
_MKC = {}
_GAINR = {}


def make_scene(rng, name, tier, force=None):
    K = int(rng.integers(2, 5))
    D = int(rng.integers(K, 9))
    if name == 'cbmm':
        D = min(D, 4)
        K = min(K, D)
    sizes = [int(D + 2 + rng.integers(0, 8)) for _ in range(K)]
    _C3[0] += 1
    big_class = _C3[0] % 8 == 0 and name != 'cbmm' and not force
    if big_class:
        # "any class sizes >= D + 2": one class with a few thousand observations next to small ones.  The start is the
        # hard true partition (a blur would hand each small class more mass from the big class than it owns, and no EM
        # keeps such a partition) and the perturbations are heavy tailed: most members sit 100x closer to the prototype
        sizes[int(rng.integers(0, K))] = int(rng.integers(1600, 4000))
    lab = np.concatenate([np.full(s, k) for k, s in enumerate(sizes)])
    lab = lab[rng.permutation(len(lab))]
    N = len(lab)
    pert = float(rng.choice([0.0, 1e-4, 1e-2]))
    pw = 1.0
    if big_class:
        pert = 1e-2
        pw = np.full((N, 1), 1e-2)                                              # per-observation level, at most 1e-2:
        pw[int(rng.integers(0, N)), 0] = 1.0                                    # one member at the full level
    if name in ('gmm', 'gcacgmm') and pert == 0.0:
        pert = 1e-4       # a Gaussian with exactly zero class variance is not defined (sklearn's Cholesky raises ValueError)
    F = int(rng.integers(1, 3)) if name in mm.INTEGRATION else None
    data = {}
    info = {'K': K, 'D': D, 'N': N, 'pert': pert}

    _GAINR[name] = _GAINR.get(name, 0) + 1
    lo, hi = [(-8, 8), (-100, 100), (-14, 2)][_GAINR[name] % 3]     # many decades; far below 1e-10; mostly quiet

    def complex_stream(shape_lead):
        P, mc = prototypes(rng, K, D, True)
        z = P[lab] + pert * pw * mm.crandn(rng, (N, D)) / np.sqrt(2 * D)
        # "any per-frame complex gains": magnitudes over many decades (frames of a quiet and a loud passage)
        g = 10.0 ** rng.uniform(lo, hi, size=(N, 1)) * np.exp(2j * np.pi * rng.random((N, 1)))
        return z * g, P, mc

    def real_stream(E, as_means):
        P, mc = prototypes(rng, K, E, False)
        if as_means:
            P = P * float(rng.uniform(1.0, 5.0))
            y = P[lab] + pert * pw * rng.normal(size=(N, E)) / np.sqrt(E)
        else:
            y = (P[lab] + pert * pw * rng.normal(size=(N, E)) / np.sqrt(E)) * 10.0 ** rng.uniform(lo, hi, size=(N, 1))
        return y, P, mc
    if name in mm.COMPLEX_MODELS:
        y, P, mc = complex_stream(())
        data['y'] = y
        protos = {'spatial': P}
    elif name == 'gmm':
        y, P, mc = real_stream(D, True)
        data['y'] = y
        protos = {'mean': P}
    elif name == 'vmfmm':
        y, P, mc = real_stream(D, False)
        data['y'] = y
        protos = {'direction': P}
    else:
        obs, emb, Ps, Pe = [], [], [], []
        mc = 0.0
        E = int(rng.integers(K, 6))
        for f in range(F):
            o, P1, m1 = complex_stream(())
            e, P2, m2 = real_stream(E, name == 'gcacgmm')
            obs.append(o); emb.append(e); Ps.append(P1); Pe.append(P2)
            mc = max(mc, m1, m2)
        data['observation'] = np.stack(obs)
        data['embedding'] = np.stack(emb)
        protos = {'spatial': np.stack(Ps), 'spectral': np.stack(Pe)}
    blur = float(rng.choice([0.0, 0.1, 0.3, 0.45]))
    if force or big_class:
        blur = 0.0
    onehot = np.eye(K)[lab].T                                  # (K, N)
    noise = rng.random((K, N))
    noise = noise / noise.sum(0, keepdims=True)
    init = (1 - blur) * onehot + blur * noise
    init = init / init.sum(0, keepdims=True)
    if blur == 0.0 and (rng.random() < 0.6 or force):
        # the true partition as a hard mask: boolean or integer typed
        as_bool = (rng.random() < 0.5) if force in (None, True) else (force == 'bool')
        init = (init > 0.5) if as_bool else (init > 0.5).astype(np.int64)
    if name in mm.INTEGRATION:
        init = np.broadcast_to(init, (F, K, N)).copy()
    iters = int(rng.integers(1, 21)) if tier == 'thorough' else int(rng.choice([1, 2, 3, 5, 10, 20]))
    if force:
        iters = 1          # the very first M-step from the hard true partition
    info.update({'blur': blur, 'max_cos': mc, 'iterations': iters, 'sizes': sizes, 'start': str(init.dtype)})
    return data, init, lab, protos, info


def angle_ok(v, p, tight):
    """fitted directions v (K, D) against prototypes p (K, D): every fitted direction is closer to its own prototype
    than to any other one ('points at'); tight additionally requires |cos| >= 0.98"""
    v = v / np.linalg.norm(v, axis=-1, keepdims=True)
    p = p / np.linalg.norm(p, axis=-1, keepdims=True)
    C = np.abs(np.einsum('...kd,...jd->...kj', v, np.conj(p)))
    own = np.einsum('...kk->...k', C)
    ok = bool(np.all(C.argmax(-1) == np.arange(C.shape[-1])))
    if tight:
        ok = ok and bool(np.all(own >= 0.98))
    return ok, float(own.min())


def mean_ok(m, p, tight):
    d = np.linalg.norm(m[..., :, None, :] - p[..., None, :, :], axis=-1)
    own = np.einsum('...kk->...k', d)
    ok = bool(np.all(d.argmin(-1) == np.arange(d.shape[-1])))
    if tight:
        sep = (d + np.eye(d.shape[-1]) * 1e9).min()
        ok = ok and bool(np.all(own <= 0.05 * max(sep, 1e-12) + 0.05))
    return ok, float(own.max())


def evaluate(rp, rng):
    name = rp['model']
    data = {k: np.array(v) for k, v in rp['data'].items()}
    init, lab, protos = np.array(rp['init']), np.array(rp['labels']), {k: np.array(v) for k, v in rp['protos'].items()}
    K = init.shape[-2]
    try:
        model, trace = mm.fit(name, data, init, iterations=rp['iterations'], container=rp.get('container'), **(rp.get('opts') or {}))
        aff = mm.predict(name, model, data)
    except Exception as e:
        cls = 'exact-prototypes' if rp.get('pert', 1.0) == 0.0 else 'perturbed'
        return ('fit/predict raised %s: %s' % (type(e).__name__, str(e)[:200]),
                'stable:raises:%s:%s:%s' % (name, type(e).__name__, cls), None)
    if not np.all(np.isfinite(aff)):
        return 'posterior not finite', 'stable:nonfinite:%s' % name, None
    mapc = aff.argmax(-2)
    wrong = int((mapc != lab).sum())
    if wrong:
        bucket = 'heavy-blur' if rp.get('blur', 0.0) >= 0.3 else 'light-blur'
        if name == 'cbmm' and bucket == 'heavy-blur' and 0.0 < rp.get('pert', 1.0) ** 2 < 1e-7:
            # noise eigenvalues of the class scatter lie inside the Bingham trainer's duplicate-spreading eps (1e-8)
            bucket = 'heavy-blur:sub-eps-noise'
        if name == 'cacgmm' and bucket == 'heavy-blur' and rp['iterations'] <= 2 and wrong == 1:
            # one observation whose true class kept < 60 % of its start mass, first two iterations only (known finding)
            bucket = 'heavy-blur:early-single'
        return ('%d of %d observations leave their true class after %d iterations (MAP != true class)'
                % (wrong, mapc.size, rp['iterations'])), 'stable:map:%s:%s' % (name, bucket), None
    # fitted parameters point at the prototypes: always in the sense "closer to the own prototype than to any other";
    # within a small angle / distance once the start was sharp or EM had time to undo the blur
    tight = rp.get('blur', 0.0) == 0.0 or rp['iterations'] >= 10
    if name in ('cacgmm',) or name in mm.INTEGRATION:
        U, lam = model.cacg.covariance_eigenvectors, model.cacg.covariance_eigenvalues
        top = np.take_along_axis(U, lam.argmax(-1)[..., None, None], axis=-1)[..., 0]
        ok, c = angle_ok(top, protos['spatial'], tight)
        if not ok:
            return 'principal cACG covariance eigenvector does not point at its prototype (min |cos| %.4f)' % c, 'stable:param:%s' % name, None
    if name == 'cwmm':
        ok, c = angle_ok(model.complex_watson.mode, protos['spatial'], tight)
        if not ok:
            return 'Watson mode does not point at its prototype (min |cos| %.4f)' % c, 'stable:param:%s' % name, None
    if name == 'cbmm':
        U, lam = model.complex_bingham.covariance_eigenvectors, model.complex_bingham.covariance_eigenvalues
        top = np.take_along_axis(U, lam.argmax(-1)[..., None, None], axis=-1)[..., 0]
        ok, c = angle_ok(top, protos['spatial'], tight)
        if not ok:
            return 'Bingham principal axis does not point at its prototype (min |cos| %.4f)' % c, 'stable:param:%s' % name, None
    if name == 'vmfmm':
        ok, c = angle_ok(model.vmf.mean, protos['direction'], tight)
        if not ok or np.any(np.sum(model.vmf.mean * protos['direction'], -1) < 0):
            return 'vMF mean direction does not point at its prototype (min cos %.4f)' % c, 'stable:param:%s' % name, None
    if name == 'gmm':
        ok, d = mean_ok(model.gaussian.mean, protos['mean'], tight)
        if not ok:
            return 'GMM mean does not point at its prototype mean (distance %.4f)' % d, 'stable:param:%s' % name, None
    if name == 'vmfcacgmm':
        ok, c = angle_ok(model.vmf.mean, protos['spectral'][0], tight)
        if not ok:
            return 'vMF-cACGMM spectral mean does not point at its prototype (min cos %.4f)' % c, 'stable:param:%s' % name, None
    if name == 'gcacgmm':
        ok, d = mean_ok(model.gaussian.mean, protos['spectral'][0], tight)
        if not ok:
            return 'GCACGMM spectral mean does not point at its prototype (distance %.4f)' % d, 'stable:param:%s' % name, None
    # correspondence of the last M-step with the model (C08 machinery) on this scene
    coq = None
    try:
        if init.shape[-1] > 400:
            raise ValueError('no Coq literal for scenes with thousands of observations: the predicates above decide')
        rec = trace[-1]
        yn = mm.normalized(name, data)
        lead = init.shape[:-2]
        li = tuple(int(rng.integers(0, n)) for n in lead)
        k = int(rng.integers(0, K))
        salv = np.ones(lead + init.shape[-1:])
        f, coq = c08.mstep_check(name, rec['model'], yn, data, rec['affiliation'], salv, rec.get('quadratic_form'), dict(rp.get('opts') or {}), li, k, rng)
        if f:
            return 'last M-step: ' + f, 'stable:mstep:%s' % name, None
    except Exception:
        coq = None
    return None, None, coq


def make(rng, tier, name=None, force=None):
    name = name or mm.MODELS[int(rng.integers(0, 7))]
    data, init, lab, protos, info = make_scene(rng, name, tier, force)
    if name in mm.INTEGRATION:
        # spectral prototypes must be common to all frequencies (one Gaussian / vMF per class over all F*T points)
        F = data['embedding'].shape[0]
        for f in range(1, F):
            data['embedding'][f] = data['embedding'][0]
            protos['spectral'][f] = protos['spectral'][0]
    rp = {'model': name, 'data': data, 'init': init, 'labels': lab, 'protos': protos, 'iterations': info['iterations'],
          'pert': info['pert'], 'blur': info['blur']}
    _MKC[name] = _MKC.get(name, 0) + 1
    rp['container'] = _MKC[name] % 3            # plain / reused trainer with refilled buffers / views: every model, every run
    if name in ('vmfmm', 'vmfcacgmm') and rng.random() < 0.5:
        # a configuration: the concentration cap (tight classes reach it)
        rp['opts'] = {'max_concentration': float(rng.choice([100, 1000, 3000]))}
        info['opts'] = rp['opts']
    label = 'separable scene %s %s' % (name, info)
    fail, key, coq = evaluate(rp, rng)
    nt = info['max_cos'] > 0.02 and info['blur'] > 0 and len(set(info['sizes'])) > 1
    return Case(label, coq=coq, pred_fail=fail, key=key, nontrivial=nt, digest_=core.digest(label, init, *data.values()),
                sample={'name': label}, replay=rp, kind='scene/' + name)


def cases(rng, tier):
    n = 56 if tier == 'quick' else 560
    out = [make(rng, tier, mm.MODELS[i % 7]) for i in range(n)]
    # every model once (thorough: 5 times) from the hard true partition given as a boolean / integer mask, one iteration
    for i in range(14 if tier == 'quick' else 42):
        out.append(make(rng, tier, mm.MODELS[i % 7], force=['bool', 'int'][(i // 7) % 2]))
    return out


def search(rng, tier, hints):
    for i in range(150 if tier == 'quick' else 1000):
        c = make(rng, 'thorough')
        if c.pred_fail:
            return [c]
    return []


def replay(payload):
    return evaluate(payload['replay'], np.random.default_rng(0))[0]
