"""Shared pieces of the C14 / C15 / C16 harness modules (pb_bss/permutation_alignment.py):
transport of (K, F, T) masks as frequency-major Coq lists, mask generators (continuous, constant,
zero, tied, binary), DHTV parameter generators, and an independent loop-level NumPy reference of the
three aligners written from the property text (used only as predicate / for the failing-input search,
never as the model: the model is coq/Model/PermAlign.v)."""
import itertools
import numpy as np
from harness import core

MET = {'cos': 0, 'euclidean': 1, 'multiply': 2}
METRICS = ['cos', 'euclidean', 'multiply']
TINY = np.finfo(np.float64).tiny


# --------------------------------------------------------------------------- transport
def bins(mask):
    """(K, F, T) array -> Coq list (list (list float)), frequency-major"""
    mask = np.asarray(mask, dtype=np.float64)
    return '[' + '; '.join(core.fmat(mask[:, f, :]) for f in range(mask.shape[1])) + ']'


def bins_fkt(x):
    """(F, K, T) array (affiliation layout) -> Coq list"""
    x = np.asarray(x, dtype=np.float64)
    return '[' + '; '.join(core.fmat(x[f]) for f in range(x.shape[0])) + ']'


def kft(mask):
    """(K, F, T) array in the implementation's own layout -> Coq nested list"""
    mask = np.asarray(mask, dtype=np.float64)
    return '[' + '; '.join(core.fmat(mask[k]) for k in range(mask.shape[0])) + ']'


def mapping_fk(mapping):
    """(K, F) mapping -> Coq list (list nat), frequency-major"""
    return core.nmat(np.asarray(mapping).T)


def perm_codes(mapping_kn, K):
    """(K, N) mappings -> N codes sum_k p[k] K^k"""
    w = K ** np.arange(K, dtype=object)
    m = np.asarray(mapping_kn).astype(object)
    return [int(sum(int(m[k, n]) * int(w[k]) for k in range(K))) for n in range(m.shape[1])]


# --------------------------------------------------------------------------- predicates
def is_perm_field(mapping, K):
    mapping = np.asarray(mapping)
    if mapping.ndim == 1:
        mapping = mapping[:, None]
    if mapping.shape[0] != K or not np.issubdtype(mapping.dtype, np.integer):
        return False
    return bool((np.sort(mapping, axis=0) == np.arange(K)[:, None]).all())


def loop_apply(mask, mapping):
    out = np.empty_like(mask)
    K, F = mapping.shape
    for f in range(F):
        for k in range(K):
            out[k, f] = mask[mapping[k, f], f]
    return out


def rows_multiset_equal(a, b):
    """per bin, the multiset of class rows is the same (a, b: (K, F, T))"""
    K, F = a.shape[:2]
    for f in range(F):
        ra = sorted(tuple(np.asarray(a[k, f]).ravel().tolist()) for k in range(K))
        rb = sorted(tuple(np.asarray(b[k, f]).ravel().tolist()) for k in range(K))
        if ra != rb:
            return False
    return True


def check_alignment_result(mask, mapping, aligned, K):
    """the C14 predicates on one aligner result; returns None or (text, key-suffix)"""
    F = mask.shape[1]
    mapping = np.asarray(mapping)
    if mapping.shape != (K, F):
        return 'mapping has shape %s, expected %s' % (mapping.shape, (K, F)), 'shape'
    if not is_perm_field(mapping, K):
        f = int(np.argmax((np.sort(mapping, axis=0) != np.arange(K)[:, None]).any(axis=0)))
        return 'mapping[:, %d] = %s is not a permutation of 0..%d' % (f, mapping[:, f].tolist(), K - 1), 'notperm'
    if aligned is not None:
        ref = loop_apply(mask, mapping)
        if aligned.shape != mask.shape or not np.array_equal(aligned, ref):
            return 'aligned[k, f] != mask[mapping[k, f], f]', 'apply'
        if not rows_multiset_equal(aligned, mask):
            return 'per-bin multiset of rows changed', 'multiset'
        s0, s1 = mask.astype(float).sum(0), aligned.astype(float).sum(0)
        if not np.allclose(s0, s1, rtol=1e-12, atol=1e-12 * max(1.0, float(np.abs(s0).max()))):
            return 'sum over the class axis changed', 'colsum'
    return None


# --------------------------------------------------------------------------- generators
def gen_mask(rng, K, F, T, kind):
    """kinds: cont (continuous random, tie-free), unit (rows sum to one over k, posterior-like),
    const, zero, tied (duplicated rows / bins), binary (0/1), ints (small integers), sparse"""
    if kind == 'cont':
        m = rng.random((K, F, T)) + 0.05
    elif kind == 'unit':
        m = rng.random((K, F, T)) + 1e-3
        m /= m.sum(0, keepdims=True)
    elif kind == 'const':
        m = np.full((K, F, T), float(rng.choice([0.25, 1.0, 3.0])))
    elif kind == 'zero':
        m = np.zeros((K, F, T))
    elif kind == 'tied':
        m = rng.random((K, F, T))
        if K > 1:
            m[int(rng.integers(1, K))] = m[0]           # two identical classes everywhere
        if F > 1 and rng.random() < 0.5:
            m[:, int(rng.integers(1, F))] = m[:, 0]     # two identical bins
        if rng.random() < 0.3:
            m[int(rng.integers(0, K)), int(rng.integers(0, F))] = 0.0   # a zero row
    elif kind == 'binary':
        m = (rng.random((K, F, T)) < 0.4).astype(np.float64)
    elif kind == 'ints':
        m = rng.integers(0, 4, (K, F, T)).astype(np.float64)
    elif kind == 'sparse':
        m = rng.random((K, F, T)) * (rng.random((K, F, T)) < 0.3)
    else:
        raise ValueError(kind)
    return np.ascontiguousarray(m)


def tie_free(kind, metric, T, K):
    """masks on which score ties have probability zero, so the mapping is a well-defined observable
    that does not depend on summation order"""
    if K == 1:
        return True
    if kind not in ('cont', 'unit'):
        return False
    if T == 1:
        # cos: every normalised row is +-1; euclidean: sums of |a_i - b_j| coincide for many
        # assignments in exact arithmetic (one-dimensional matching), rounding then decides
        return False
    return True


def odd_F(rng, lo, hi):
    f = int(rng.integers(lo, hi + 1))
    return f if f % 2 == 1 else (f + 1 if f + 1 <= hi else f - 1)


def plan_params(rng, F, overlap=False):
    """random valid (start, width, shift) with shift <= width (<= width/3 if overlap)"""
    r = rng.random()
    if r < 0.1:
        w = F
    elif r < 0.2:
        w = 1
    else:
        w = int(rng.integers(1, F + 1))
    st = int(rng.integers(0, F - w + 1))
    if overlap:
        sh = int(rng.integers(1, max(1, w // 3) + 1))
    else:
        sh = w if rng.random() < 0.15 else int(rng.integers(1, w + 1))
    return st, w, sh


_MK = [0]


def make_dhtv(stft, st, w, sh, mi, si, metric, algo):
    """every second construction leaves the options that sit at their documented default ('cos', 'greedy') to the default"""
    from pb_bss.permutation_alignment import DHTVPermutationAlignment
    kw = dict(stft_size=stft, segment_start=st, segment_width=w, segment_shift=sh, main_iterations=mi, sub_iterations=si,
              similarity_metric=metric, algorithm=algo)
    import zlib
    if zlib.crc32(repr((stft, st, w, sh, mi, si)).encode()) % 2 == 0:          # decided by the configuration, not by call order
        if metric == 'cos':
            del kw['similarity_metric']
        if algo == 'greedy':
            del kw['algorithm']
    return DHTVPermutationAlignment(**kw)


def make_greedy(metric, algo):
    """GreedyPermutationAlignment; documented defaults ('euclidean', 'optimal') left out every second time"""
    from pb_bss.permutation_alignment import GreedyPermutationAlignment
    kw = dict(similarity_metric=metric, algorithm=algo)
    _MK[0] += 1
    if (_MK[0] // 2) % 2 == 0:            # pairs of constructions (history call + call under test) share the decision
        if metric == 'euclidean':
            del kw['similarity_metric']
        if algo == 'optimal':
            del kw['algorithm']
    return GreedyPermutationAlignment(**kw)


def stft_of(F):
    return 2 * (F - 1)


# --------------------------------------------------------------------------- independent reference
def ref_vnorm(a):
    n = np.sqrt((a * a).sum(-1, keepdims=True))
    return a / np.maximum(n, TINY)


def ref_score(metric, est, refr):
    """score[k_ref, k_est] of the (K, T) estimate rows against the (K, T) reference rows"""
    if metric == 'cos':
        est, refr = ref_vnorm(est), ref_vnorm(refr)
    K = est.shape[0]
    s = np.empty((K, K))
    for k in range(K):
        for j in range(K):
            if metric == 'euclidean':
                d = est[j] - refr[k]
                s[k, j] = -np.sqrt((d * d).sum())
            else:
                s[k, j] = (est[j] * refr[k]).sum()
    return s


def ref_assign(score, algo):
    """greedy: repeatedly take the largest remaining cell (first in row-major order on ties) and
    strike out its row and column; optimal: first permutation in lexicographic order with maximal
    total (left-to-right sum)"""
    score = np.asarray(score)
    K = score.shape[0]
    if algo == 'greedy':
        out = [0] * K
        rows, cols = set(), set()
        for _ in range(K):
            best = None
            for i in range(K):
                for j in range(K):
                    if i in rows or j in cols:
                        continue
                    if best is None or score[i, j] > score[best[0], best[1]]:
                        best = (i, j)
            rows.add(best[0]); cols.add(best[1])
            out[best[0]] = best[1]
        return np.array(out)
    best, bs = None, None
    for p in itertools.permutations(range(K)):
        s = 0
        for k in range(K):
            s = s + score[k, p[k]]
        if bs is None or s > bs:
            best, bs = p, s
    return np.array(best, dtype=int)


def ref_plan(stft, st, w, sh, mi, si):
    """main segment, then alternately the next higher / next lower shifted segment; the outermost
    ones are stretched to the band edges"""
    F = stft // 2 + 1
    ups, s = [], st + sh
    while s < F - w:
        ups.append([si, s, s + w]); s += sh
    dns, s = [], st - sh
    while s > 0:
        dns.append([si, s, s + w]); s -= sh
    first = [mi, st, st + w]
    if ups:
        ups[-1][2] = F
    else:
        first[2] = F
    if dns:
        dns[-1][1] = 0
    else:
        first[1] = 0
    out = [first]
    for i in range(max(len(ups), len(dns))):
        if i < len(ups):
            out.append(ups[i])
        if i < len(dns):
            out.append(dns[i])
    return out


def ref_dhtv(mask, plan, metric, algo):
    K, F, T = mask.shape
    feats = ref_vnorm(mask) if metric == 'cos' else np.array(mask, dtype=float)
    mapping = np.tile(np.arange(K)[:, None], (1, F))
    m2 = 'euclidean' if metric == 'euclidean' else 'multiply'
    for n, s, e in plan:
        for _ in range(n):
            cent = feats[:, s:e, :].mean(axis=1)
            if metric == 'cos':
                cent = ref_vnorm(cent)
            changed = False
            for f in range(s, e):
                p = ref_assign(ref_score(m2, feats[:, f, :], cent), algo)
                if not (p == np.arange(K)).all():
                    changed = True
                    feats[:, f, :] = feats[p, f, :]
                    mapping[:, f] = mapping[p, f]
            if not changed:
                break
    return mapping


def ref_greedy_chain(mask, metric):
    K, F, T = mask.shape
    mapping = np.zeros((K, F), dtype=int)
    mapping[:, 0] = np.arange(K)
    for f in range(1, F):
        p = ref_assign(ref_score(metric, mask[:, f, :], mask[:, f - 1, :]), 'greedy')
        mapping[:, f] = p[mapping[:, f - 1]]
    return mapping


def ref_oracle(mask, reference, metric, algo):
    K, F, T = mask.shape
    mapping = np.zeros((K, F), dtype=int)
    for f in range(F):
        mapping[:, f] = ref_assign(ref_score(metric, mask[:, f, :], reference[:, f, :]), algo)
    return mapping


def ro(a):
    a = np.array(a)
    a.setflags(write=False)
    return a
