"""C02 -- EM iterations never decrease the mixture log-likelihood.
Predicates on the implementation: along the recorded trajectory of cACGMM, cWMM, GMM (full/diagonal/spherical) and
GCACGMM (unit stream weights) the (saliency-weighted) observed-data log-likelihood, evaluated independently from the
components' log_pdf and the stored weights, is non-decreasing on every guard-free prefix; each M-step does not
decrease the auxiliary function Q (the hypothesis of theorem C02_em_monotone, evaluated per step); CACGMM.log_likelihood
equals that mixture log-likelihood.  Correspondence: log_likelihood against Model/Loglik.v on PrimFloat."""
import numpy as np
from scipy.special import logsumexp
from harness import core, mm
from harness.core import Case

PID = 'C02'
REQUIRES = ['Run.C02']
RULE = ('data in general position with N >= 4*K*D per slice, strictly positive starts, 3..12 (thorough ..50) iterations, all '
        'weight_constant_axis / saliency / covariance_type / covariance_norm options with exact or MM M-steps; non-trivial: the '
        'trajectory moves (some step gains > 1e-6 |L|) and the guard-free prefix has >= 2 iterations; distinct by SHA-1')
NOT_PROVED = ('that the full-covariance Gaussian, cACG matrix and Watson spline M-steps do not decrease Q is evaluated per step '
              '(Q(new|old) >= Q(old|old)), not proved; rounding')
ASSUMPTIONS = ['with saliency the monotone quantity is sum_n s_n log sum_k pi_k p_k(y_n) (observation n counted s_n times, as in C08)',
               'guard-free prefix: every cACG eigenvalue >= 1e4*floor, Watson concentration strictly inside (0, max)']
SHARD = 40

_COUNT = [0]
NAMES = ['cacgmm', 'cacgmm', 'cwmm', 'gmm', 'gmm', 'gcacgmm']


def loglik_of(name, model, data, sal):
    lp, w = mm.components(name, model, data)
    with np.errstate(divide='ignore'):
        z = lp + np.log(w)
    l = logsumexp(z, axis=-2)
    return float(np.sum(l * sal)), lp, w


def guard_free(name, model, opts):
    if name in ('cacgmm', 'gcacgmm'):
        floor = opts.get('eigenvalue_floor', 1e-10)
        ev = model.cacg.covariance_eigenvalues
        if opts.get('covariance_norm', 'eigenvalue') == 'eigenvalue':
            return bool(ev.min() >= 1e4 * floor)
        return bool((ev.min(-1) >= 1e4 * floor * ev.max(-1)).all())
    if name == 'cwmm':
        k = np.asarray(model.complex_watson.concentration)
        return bool((k > 1e-2).all() and (k < 500 * 0.99).all())
    return True


def make(rng, tier, tied_stratum=None, large=None, int_start=None, offset=False, reuse_dim=None):
    name = reuse_dim or ('gmm' if offset else None) or int_start or large or tied_stratum or NAMES[int(rng.integers(0, len(NAMES)))]
    K = int(rng.integers(2, 4))
    D = int(rng.integers(2, 5))
    N = 4 * K * D + int(rng.integers(0, 12))
    if large:
        K, D, N = 2, 3, int(rng.choice([16384, 32768])) + int(rng.integers(9000, 15000))       # a long recording (one slice)
    if name == 'gcacgmm':
        lead = (int(rng.integers(1, 3)),)
    else:
        lead = () if rng.random() < 0.5 else (int(rng.integers(1, 4)),)
    if tied_stratum:
        lead = (int(rng.integers(2, 4)),)
    if large:
        lead = () if name != 'gcacgmm' else (1,)
    data = mm.make_data(rng, name, K, D, N, lead, separation=float(rng.choice([1.0, 2.5, 5.0])))
    if offset:
        # features far from the origin (|mean| >> spread, e.g. un-centred log-energies or frequencies in Hz): class structure
        # unchanged, but second moments minus squared means would cancel
        data = dict(data)
        data['y'] = data['y'] * float(rng.uniform(0.1, 0.5)) + rng.uniform(1.0, 3.0, size=(D,)) * 1e6
    if large:
        # the scene changes late in the recording (sources move): the last quarter comes from other class parameters
        nt_ = N % 16384
        tail = mm.make_data(rng, name, K, D, nt_, lead, separation=float(rng.choice([1.0, 2.5, 5.0])))
        data = {k_: (np.concatenate([v[..., : N - nt_, :], tail[k_]], axis=-2) if k_ != 'labels' else v)
                for k_, v in data.items()}
    init = mm.make_init(rng, K, N, lead, 'positive')
    _COUNT[0] += 1
    int_init = name != 'gcacgmm' and (_COUNT[0] % 5 == 0 or bool(int_start))
    if int_init:
        # "all strictly positive initial affiliations": vote counts, integer typed and not normalised
        init = rng.integers(1, 7, size=init.shape)
    o = {}
    nd = len(lead) + 2
    if name == 'gcacgmm':
        o['weight_constant_axis'] = [(-1,), (-3,), (-3, -1), (-3, -2, -1)][int(rng.integers(0, 4))]
        o['covariance_type'] = ['full', 'diagonal', 'spherical'][int(rng.integers(0, 3))]
        o['affiliation_eps'] = 0.0
        o['covariance_norm'] = ['eigenvalue', 'trace', False][int(rng.integers(0, 3))]
    else:
        wcas = [(-1,), -1, -2] + ([(-3,), (-3, -1)] if nd >= 3 else [])
        o['weight_constant_axis'] = wcas[int(rng.integers(0, len(wcas)))]
    if rng.random() < 0.45 or int_init:
        sal = rng.uniform(0.3, 2.0, size=(*lead, N))
        if lead and rng.random() < 0.7:
            # totals that differ between the independent slices (e.g. repetition counts / power per frequency)
            sal = sal * 10.0 ** rng.uniform(-1.5, 1.5, size=(*lead, 1))
        o['saliency'] = sal
    if name == 'cacgmm':
        o['covariance_norm'] = ['eigenvalue', 'trace', False][int(rng.integers(0, 3))]
        o['affiliation_eps'] = float(rng.choice([0.0, 0.0, 1e-10]))
    if name == 'gmm':
        o['covariance_type'] = ['full', 'diagonal', 'spherical'][int(rng.integers(0, 3))]
    iters = int(rng.integers(3, 13)) if tier == 'quick' else int(rng.integers(3, 51))
    if tier == 'quick' and 'saliency' in o and lead and rng.random() < 0.6:
        iters = int(rng.integers(20, 36))        # late-iteration decreases need a longer history
    if offset:
        o['covariance_type'] = ['full', 'diagonal', 'spherical'][_COUNT[0] % 3]
        o.pop('saliency', None)
        iters = int(rng.integers(25, 36))
    if int_start:
        # vote counts as start, a saliency with a wide spread, a long history
        o['saliency'] = rng.uniform(0.05, 3.0, size=(*lead, N))
        iters = int(rng.integers(25, 36))
    if tied_stratum:
        # weights tied across the independent axis + saliency totals differing per slice + a long history
        o['weight_constant_axis'] = [(-3,), (-3, -1)][int(rng.integers(0, 2))]
        o['saliency'] = np.floor(rng.uniform(1, 4, size=(*lead, N))) * 10.0 ** rng.uniform(-1.5, 1.5, size=(*lead, 1))
        iters = int(rng.integers(25, 36))
    rp = {'model': name, 'data': {k: v for k, v in data.items() if k != 'labels'}, 'init': init, 'opts': o, 'iterations': iters}
    if reuse_dim:
        rp['reuse_dim'] = D + 3
    label = 'EM ascent %s K=%d D=%d N=%d lead=%s iters=%d init=%s opts=%s' % (name, K, D, N, lead, iters, init.dtype, mm.describe_options(o))
    fail, key, coq, nt = evaluate(rp, rng)
    return Case(label, coq=coq, pred_fail=fail, key=key, nontrivial=nt, digest_=core.digest(label, init, *rp['data'].values()),
                sample={'name': label}, replay=rp, kind='ascent/' + name)


def evaluate(rp, rng):
    name = rp['model']
    data = {k: np.array(v) for k, v in rp['data'].items()}
    init = np.array(rp['init'])
    o = dict(rp['opts'])
    if isinstance(o.get('weight_constant_axis'), list) and name in mm.INTEGRATION:
        o['weight_constant_axis'] = tuple(o['weight_constant_axis'])
    K, N = init.shape[-2:]
    lead = init.shape[:-2]
    sal = np.asarray(o['saliency']) if o.get('saliency') is not None else np.ones((*lead, N))
    try:
        T = None
        if rp.get('reuse_dim'):
            # the trainer object served a recording with another number of channels before; it may refuse the new one
            # with an explicit exception, but if it fits, EM must still ascend
            T = mm.trainer_cls(name)()
            r0 = np.random.default_rng(rp['reuse_dim'])
            N0 = 40
            y0 = mm.crandn(r0, (N0, rp['reuse_dim'])) if name != 'gmm' else r0.normal(size=(N0, rp['reuse_dim']))
            try:
                T.fit(y0, initialization=mm.make_init(r0, K, N0, (), 'positive'), iterations=2)
            except Exception:
                pass
        model, trace = mm.fit(name, data, init, iterations=rp['iterations'], trainer=T, **o)
    except Exception as e:
        if core.deliberate_exception(e):
            # a class collapsed (sklearn's ill-defined covariance) or a finiteness assertion fired: the trajectory left
            # the guard-free region the property quantifies over
            return None, None, None, False
        return 'fit raised %s: %s' % (type(e).__name__, str(e)[:200]), 'ascent:raises:%s' % name, None, False
    L, lps, ws = [], [], []
    for rec in trace:
        l, lp, w = loglik_of(name, rec['model'], data, sal)
        L.append(l)
        lps.append(lp)
        ws.append(w)
    if not np.all(np.isfinite(L)):
        return 'log-likelihood not finite along the trajectory', 'ascent:nonfinite:%s' % name, None, False
    eps = float(o.get('affiliation_eps', 0.0))
    tol_rel = 1e-9 if eps == 0 else 1e-7
    if name == 'cwmm':
        tol_rel = 1e-6       # approximate M-step: spline inverse of the hypergeometric ratio (contract tolerance)
    moved = False
    prefix = 0
    for i in range(len(L) - 1):
        if not (guard_free(name, trace[i]['model'], o) and guard_free(name, trace[i + 1]['model'], o)):
            break
        prefix = i + 1
        scale = max(1.0, abs(L[i]))
        if L[i + 1] < L[i] - tol_rel * scale:
            return ('log-likelihood decreases from iteration %d to %d: %.12g -> %.12g (drop %.3g)'
                    % (i + 1, i + 2, L[i], L[i + 1], L[i] - L[i + 1])), 'ascent:decrease:%s' % name, None, False
        if L[i + 1] - L[i] > 1e-6 * scale:
            moved = True
        # hypothesis of C02_em_monotone, evaluated: Q(new | old) >= Q(old | old)
        with np.errstate(divide='ignore'):
            z_old = lps[i] + np.log(ws[i])
            z_new = lps[i + 1] + np.log(ws[i + 1])
        g = np.exp(z_old - logsumexp(z_old, axis=-2, keepdims=True))
        ok = np.isfinite(z_old) & np.isfinite(z_new)
        q_old = float(np.sum(np.where(ok, g * z_old, 0.0) * sal[..., None, :]))
        q_new = float(np.sum(np.where(ok, g * z_new, 0.0) * sal[..., None, :]))
        if q_new < q_old - tol_rel * max(1.0, abs(q_old)):
            return ('M-step %d decreases the auxiliary function Q: %.12g -> %.12g' % (i + 2, q_old, q_new),
                    'ascent:Q:%s' % name, None, False)
    coq = None
    if name == 'cacgmm':
        from pb_bss.distribution import CACGMM
        got = float(model.log_likelihood(data['y']))
        want, lp, w = loglik_of(name, model, data, np.ones((*lead, N)))
        if not np.isfinite(got) or abs(got - want) > 1e-8 * max(1.0, abs(want)):
            return ('CACGMM.log_likelihood = %.12g is not the mixture log-likelihood sum_n log sum_k pi_k p_k = %.12g'
                    % (got, want)), 'loglik-method', None, False
        rows_l = np.moveaxis(lp, -2, -1).reshape(-1, K)
        rows_w = np.moveaxis(w, -2, -1).reshape(-1, K)
        if rows_l.shape[0] <= 160:
            coq = 'check_loglik %d %d %s %s %s' % (K - 1, rows_l.shape[0], core.fmat(rows_w), core.fmat(rows_l), core.fhex(got))
    return None, None, coq, bool(moved and prefix >= 2)


def cases(rng, tier):
    n = 36 if tier == 'quick' else 300
    out = [make(rng, tier) for _ in range(n)]
    for i in range(8 if tier == 'quick' else 60):
        out.append(make(rng, tier, tied_stratum=['cacgmm', 'cwmm', 'gmm', 'gcacgmm'][i % 4]))
    for i in range(3 if tier == 'quick' else 12):
        out.append(make(rng, tier, offset=True))
    for i in range(6 if tier == 'quick' else 12):
        out.append(make(rng, tier, reuse_dim=['cwmm', 'cacgmm', 'gmm', 'cwmm', 'cwmm', 'cwmm'][i % 6]))
    for i in range(5 if tier == 'quick' else 20):
        out.append(make(rng, tier, int_start=['gmm', 'gmm', 'cacgmm', 'gmm', 'cwmm'][i % 5]))
    for i in range(4 if tier == 'quick' else 15):
        out.append(make(rng, tier, large=['cacgmm', 'gmm', 'cacgmm', 'cwmm', 'gcacgmm'][i % 5]))
    return out


def search(rng, tier, hints):
    for i in range(200 if tier == 'quick' else 1500):
        c = make(rng, 'thorough')
        if c.pred_fail:
            return [c]
    return []


def replay(payload):
    return evaluate(payload['replay'], np.random.default_rng(0))[0]
