"""C10 -- PSD estimate is the mask-weighted mean outer product (get_power_spectral_density_matrix,
condition_covariance).  Correspondence: every (leading index, source) slice of the implementation's
result, addressed by the documented layout, against Model/PSD.v evaluated on PrimFloat.
Predicates (independent NumPy): defining formula, Hermitian, PSD, mask-scale invariance, zero mask,
inputs untouched, bool masks accepted."""
import numpy as np
from harness import core
from harness.core import Case

PID = 'C10'
REQUIRES = ['Run.C10']
RULE = ('layouts drawn over 0..3 leading axes, every valid sensor/source/time position, mask kind '
        '(none / per-bin / with source axis), dtype (float, bool, all-zero), normalize in {T,F}; '
        'non-trivial: D>=2, T>=2, complex data with non-zero imaginary part, mask not constant '
        '(or absent); distinct by SHA-1 of inputs and options')
NOT_PROVED = 'binary64 rounding (tolerance 2^-30 relative to the largest entry); axis plumbing is tested via layouts, not proved'
ASSUMPTIONS = ['floor 1e-10 is read from the behaviour of the implementation (mask sum below it is floored)']

FLOOR = 1e-10


def _arrange(canon, lead_n, special):
    """canon: array with axes (*lead, A, B); special: {position: 'A' or 'B'} positions in the
    final array for the two trailing canonical axes; leads fill the remaining positions in order."""
    nd = canon.ndim
    order = [None] * nd
    for pos, which in special.items():
        order[pos] = lead_n + (0 if which == 'A' else 1)
    it = iter(range(lead_n))
    for i in range(nd):
        if order[i] is None:
            order[i] = next(it)
    return np.ascontiguousarray(np.transpose(canon, order))


def make_case(rng, tier, idx):
    from pb_bss.extraction.beamformer import get_power_spectral_density_matrix as psd_fn
    big = tier == 'thorough'
    lead_n = int(rng.integers(0, 4))
    sizes = list(rng.permutation([2, 3, 4, 5])[:lead_n]) if rng.random() < 0.7 else list(rng.integers(1, 4, lead_n))
    sizes = [int(s) for s in sizes]
    D = int(rng.integers(1, 9)) if rng.random() < 0.8 else int(rng.choice([1, 2]))
    Tn = int(rng.integers(1, 65 if big else 17))
    if idx % 6 == 5:
        Tn = int(rng.integers(33, 260))          # realistic numbers of frames (block-wise accumulation, remainders)
        D = min(D, 4)
    K = int(rng.integers(1, 6))
    kind = str(rng.choice(['none', 'nosrc', 'src', 'src', 'src']))
    normalize = bool(rng.random() < 0.65)
    x = rng.normal(size=(*sizes, D, Tn)) + 1j * rng.normal(size=(*sizes, D, Tn))
    x *= 10.0 ** rng.integers(-3, 4)
    nd = lead_n + 2
    mdtype = 'float'
    mask_c = None
    if kind != 'none':
        shape = (*sizes, K, Tn) if kind == 'src' else (*sizes, 1, Tn)
        r = rng.random()
        if r < 0.15:
            mask_c = (rng.random(shape) < 0.5)
            mdtype = 'bool'
        elif r < 0.25:
            mask_c = np.zeros(shape)
            mdtype = 'zero'
        elif r < 0.35:
            mask_c = rng.random(shape) * (rng.random(shape) < 0.3)   # sparse, some all-zero rows
            mdtype = 'sparse'
        else:
            mask_c = rng.random(shape) * 10.0 ** rng.integers(-3, 3)
        if kind == 'nosrc':
            Kc = 1
        else:
            Kc = K
    # positions
    if kind == 'nosrc':
        time_pos = nd - 1
        sensor_pos = int(rng.integers(0, nd - 1))
        source_pos = None
    else:
        time_pos = int(rng.integers(0, nd)) if rng.random() < 0.6 else nd - 1
        others = [p for p in range(nd) if p != time_pos]
        sensor_pos = int(rng.choice(others)) if rng.random() < 0.7 else others[-1]
        source_pos = int(rng.choice(others)) if rng.random() < 0.7 else others[-1]
    if kind == 'src' and idx % 4 == 0 and nd >= 3:
        # sensors first in the observation, the source axis of the mask at its documented default position (-2), which
        # the caller therefore does not pass
        time_pos, source_pos, sensor_pos = nd - 1, nd - 2, 0
    if kind == 'src' and idx % 4 == 2 and nd >= 3:
        # time first, then the source axis of the mask / the sensor axis of the observation, then further leading axes:
        # observation (T, D, F, ...), mask (T, K, F, ...), normalised
        time_pos, source_pos, sensor_pos, normalize = 0, 1, 1, True
    obs = _arrange(x, lead_n, {sensor_pos: 'A', time_pos: 'B'})
    kw = {}

    def dimarg(p):
        return p - nd if rng.random() < 0.7 else p
    kw['sensor_dim'] = dimarg(sensor_pos)
    kw['time_dim'] = dimarg(time_pos)
    mask = None
    if kind == 'src':
        mask = _arrange(mask_c, lead_n, {source_pos: 'A', time_pos: 'B'})
        kw['source_dim'] = dimarg(source_pos)
    elif kind == 'nosrc':
        mask = np.ascontiguousarray(mask_c[..., 0, :])
    kw['normalize'] = normalize
    if idx % 2 == 0:
        # arguments at their documented default are left out by most callers
        for k_, d_ in (('sensor_dim', -2), ('source_dim', -2), ('time_dim', -1), ('normalize', True)):
            if k_ in kw and kw[k_] == d_ and type(kw[k_]) == type(d_):
                del kw[k_]
    obs.setflags(write=False)
    obs_bytes = obs.tobytes()
    if mask is not None:
        mask.setflags(write=False)
        mask_bytes = mask.tobytes()
    name = 'psd lead=%s D=%d T=%d K=%d kind=%s mask=%s %s' % (sizes, D, Tn, K, kind, mdtype, kw)
    replay = {'fn': 'psd', 'obs': obs, 'mask': mask, 'kw': kw, 'lead_n': lead_n, 'kind': kind,
              'sensor_pos': sensor_pos, 'time_pos': time_pos, 'source_pos': source_pos}
    dg = core.digest(obs, mask, sorted(kw.items()))
    nontrivial = D >= 2 and Tn >= 2 and (mask is None or (mdtype != 'zero' and np.ptp(mask.astype(float)) > 0))
    sample = {'name': name, 'obs': core.small(obs, 3), 'mask': core.small(mask, 3) if mask is not None else None}
    fail, key, coq, raised = evaluate(replay, rng)
    return Case(name, coq=coq, pred_fail=fail, key=key, nontrivial=nontrivial, digest_=dg, sample=sample,
                replay=replay, raised=raised, kind='%s/%s' % (kind, mdtype))


def canonical_out(out, lead_n, kind, source_pos, nd):
    """bring the implementation's result to (*lead, K, D, D)"""
    if kind == 'none' or kind == 'nosrc':
        return out[..., None, :, :]
    sdim = source_pos - nd
    if sdim < -2:
        # documented: sources stay at the position they have in the mask
        return np.moveaxis(out, source_pos, -3)
    return out


def evaluate(rp, rng=None):
    """run the implementation on a replay payload; returns (pred_fail, key, coq_expr, raised)"""
    from pb_bss.extraction.beamformer import get_power_spectral_density_matrix as psd_fn
    obs, mask, kw = rp['obs'], rp['mask'], dict(rp['kw'])
    lead_n, kind = rp['lead_n'], rp['kind']
    nd = obs.ndim
    obs = np.array(obs); obs.setflags(write=False)
    if mask is not None:
        mask = np.array(mask); mask.setflags(write=False)
    ob, mb = obs.tobytes(), (mask.tobytes() if mask is not None else b'')
    mkind = 'none' if mask is None else ('bool' if mask.dtype == bool else 'float')
    try:
        out = psd_fn(obs, mask, **kw)
    except Exception as e:  # every input generated here is valid per the docstring / property
        return ('get_power_spectral_density_matrix raised %s: %s on a valid input (mask %s)'
                % (type(e).__name__, str(e)[:200], mkind)), 'psd:raises:%s:%s' % (mkind, type(e).__name__), None, None
    if obs.tobytes() != ob or (mask is not None and mask.tobytes() != mb):
        return 'caller array modified', 'psd:mutates', None, None
    # canonical views
    x = _canon(obs, rp['sensor_pos'], rp['time_pos'])
    D, Tn = x.shape[-2:]
    if mask is None:
        mc = None
        K = 1
    elif kind == 'nosrc':
        mc = mask[..., None, :].astype(float)
        K = 1
    else:
        mc = _canon(mask, rp['source_pos'], rp['time_pos']).astype(float)
        K = mc.shape[-2]
    lead = x.shape[:-2]
    try:
        oc = canonical_out(out, lead_n, kind, rp['source_pos'], nd)
        assert oc.shape == (*lead, K, D, D), (oc.shape, (*lead, K, D, D))
    except Exception as e:
        return 'result shape %s is not the documented layout: %s' % (out.shape, e), 'psd:shape', None, None
    normalize = kw.get('normalize', True)
    # independent reference
    if mc is None:
        w = np.full((*lead, 1, Tn), 1.0 / Tn)
    elif normalize:
        w = mc / np.maximum(mc.sum(-1, keepdims=True), FLOOR)
    else:
        w = mc
    ref = np.einsum('...kt,...dt,...et->...kde', w, x, x.conj())
    scale = max(np.abs(ref).max(), 1e-300)
    if not np.all(np.isfinite(oc)):
        return 'non-finite PSD entries', 'psd:nonfinite', None, None
    if np.abs(oc - ref).max() > 1e-9 * scale:
        return ('PSD differs from sum_t m x x^H / sum m: max dev %.3g (scale %.3g)' % (np.abs(oc - ref).max(), scale),
                'psd:formula:%s' % kind, _coq(x, mc, oc, normalize, lead, K, D, Tn, rng), None)
    if np.abs(oc - np.conj(np.swapaxes(oc, -1, -2))).max() > 1e-9 * scale:
        return 'PSD not Hermitian', 'psd:hermitian', None, None
    if mc is None or (mc >= 0).all():
        ev = np.linalg.eigvalsh((oc + np.conj(np.swapaxes(oc, -1, -2))) / 2)
        if ev.min() < -1e-9 * scale:
            return 'PSD has a negative eigenvalue %.3g' % ev.min(), 'psd:negative', None, None
    if mask is not None and normalize and mask.dtype != bool and (mc.sum(-1) > 1e-6).all():
        out2 = psd_fn(obs, mask * 7.5, **kw)
        if np.abs(out2 - out).max() > 1e-9 * scale:
            return 'normalised PSD changes under positive rescaling of the mask', 'psd:scale', None, None
    # the result depends on the VALUES only: other memory layouts of the same values, and a second call on the same
    # buffers after an in-place refresh, give the same PSD
    f = core.container_variants(lambda o_, m_: psd_fn(o_, m_, **kw), [obs, mask], out,
                                lambda r, e: np.shape(r) == np.shape(e) and np.abs(np.asarray(r) - e).max() <= 1e-9 * scale)
    if f:
        return 'get_power_spectral_density_matrix: ' + f, 'psd:container', None, None
    return None, None, _coq(x, mc, oc, normalize, lead, K, D, Tn, rng), None


def _canon(a, p_a, p_b):
    """move axis p_a to -2 and p_b to -1, keeping the others in order"""
    nd = a.ndim
    rest = [i for i in range(nd) if i not in (p_a, p_b)]
    return np.transpose(a, rest + [p_a, p_b])


def _coq(x, mc, oc, normalize, lead, K, D, Tn, rng):
    """Coq expression checking up to 3 (lead, k) slices of this case"""
    idxs = [li + (k,) for li in np.ndindex(*lead) for k in range(K)]
    if rng is not None and len(idxs) > 3:
        sel = rng.choice(len(idxs), 3, replace=False)
        idxs = [idxs[int(i)] for i in sel]
    else:
        idxs = idxs[:3]
    parts = []
    for ix in idxs:
        li, k = ix[:-1], ix[-1]
        xs = x[li]
        imp = oc[li + (k,)].reshape(-1)
        if mc is None:
            parts.append('check_psd_nomask %d %d %s %s' % (D, Tn, core.cmat(xs), core.clist(imp)))
        else:
            parts.append('check_psd_masked %d %d %s %s %s %s %s' % (
                D, Tn, core.cmat(xs), core.flist(mc[li + (k,)]), core.fhex(FLOOR), core.cbool(normalize), core.clist(imp)))
    return 'allR [' + '; '.join(parts) + ']'


_CC = [0]


def make_cond_case(rng, tier, idx):
    lead = [int(s) for s in rng.integers(1, 4, int(rng.integers(0, 3)))]
    D = int(rng.integers(1, 9))
    a = rng.normal(size=(*lead, D, D + 2)) + 1j * rng.normal(size=(*lead, D, D + 2))
    A = a @ np.conj(np.swapaxes(a, -1, -2)) * 10.0 ** rng.integers(-3, 4)
    _CC[0] += 1
    if _CC[0] % 3 == 0:
        # PSDs of very quiet / very loud signals (-140 .. -300 dB, +300 dB), a different level per leading index, and the zero
        # PSD of an all-zero mask: the formula has no absolute scale
        lev = 10.0 ** rng.choice([-14.0, -30.0, -12.0, 30.0, -11.0], size=tuple(lead) + (1, 1))
        A = A * lev
        if lead and _CC[0] % 6 == 0:
            A[(0,) * len(lead)] = 0
    gamma = float(rng.choice([0.0, 1e-3, 0.1, 1.0, 7.0, 100.0])) if rng.random() < 0.7 else float(rng.random())
    A.setflags(write=False)
    rp = {'fn': 'cond', 'A': A, 'gamma': gamma}
    fail, key, coq, raised = evaluate_cond(rp, rng)
    name = 'condition_covariance lead=%s D=%d gamma=%g' % (lead, D, gamma)
    return Case(name, coq=coq, pred_fail=fail, key=key, nontrivial=D >= 2 and gamma > 0,
                digest_=core.digest(A, gamma), sample={'name': name, 'A': core.small(A, 3)}, replay=rp, kind='cond')


def evaluate_cond(rp, rng=None):
    from pb_bss.extraction.beamformer import condition_covariance
    A, gamma = np.array(rp['A']), rp['gamma']
    A.setflags(write=False)
    b = A.tobytes()
    try:
        out = condition_covariance(A, gamma)
    except Exception as e:
        return 'condition_covariance raised %s: %s' % (type(e).__name__, e), 'cond:raises', None, None
    if A.tobytes() != b:
        return 'caller array modified', 'cond:mutates', None, None
    D = A.shape[-1]
    tr = np.trace(A, axis1=-2, axis2=-1)
    ref = (A + gamma * tr[..., None, None] / D * np.eye(D)) / (1 + gamma)
    scale = np.abs(ref).max()
    psc = np.abs(ref).max(axis=(-2, -1), keepdims=True)          # per leading index: the levels may differ by many decades
    if out.shape != A.shape or (np.abs(out - ref) > 1e-9 * psc).any():
        return 'condition_covariance differs from (Phi + gamma tr(Phi)/D I)/(1+gamma)', 'cond:formula', None, None
    if (np.abs(np.trace(out, axis1=-2, axis2=-1) - tr) > 1e-9 * np.abs(tr)).any():
        return 'trace not preserved', 'cond:trace', None, None
    ev = np.linalg.eigvalsh((out + np.conj(np.swapaxes(out, -1, -2))) / 2)
    if (ev < -1e-9 * psc[..., 0]).any():
        return 'not PSD', 'cond:psd', None, None
    f = core.container_variants(lambda A_: condition_covariance(A_, gamma), [A], out,
                                lambda r, e: np.shape(r) == np.shape(e) and np.abs(np.asarray(r) - e).max() <= 1e-9 * scale)
    if f:
        return 'condition_covariance: ' + f, 'cond:container', None, None
    lead = A.shape[:-2]
    idxs = list(np.ndindex(*lead))[:2]
    parts = ['check_condition_cov %d %s %s %s' % (D, core.cmat(A[i]), core.fhex(gamma), core.clist(out[i].reshape(-1)))
             for i in idxs]
    return None, None, 'allR [' + '; '.join(parts) + ']', None


def cases(rng, tier):
    n = 60 if tier == 'quick' else 600
    out = []
    for i in range(n):
        out.append(make_case(rng, tier, i))
    for i in range(n // 6):
        out.append(make_cond_case(rng, tier, i))
    return out


def search(rng, tier, hints):
    """after a break: look for a concrete input on which the property's own predicates fail"""
    out = []
    for i in range(400 if tier == 'quick' else 3000):
        c = make_case(rng, 'thorough', i) if i % 5 else make_cond_case(rng, tier, i)
        if c.pred_fail:
            out.append(c)
            break
    return out


def replay(payload):
    rp = payload['replay']
    if rp['fn'] == 'psd':
        fail, key, _, _ = evaluate(rp)
    else:
        fail, key, _, _ = evaluate_cond(rp)
    return fail
