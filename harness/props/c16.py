"""C16 -- blind alignment restores a frequency-consistent class order
(pb_bss/permutation_alignment.py: DHTVPermutationAlignment.alignment_plan / calculate_mapping,
GreedyPermutationAlignment.calculate_mapping).

Correspondence (exact, decided inside Coq): alignment_plan for ALL (start, width, shift) of the chosen
STFT sizes (thorough: every size <= 64) by hash, for sampled configurations and the 512 / 1024 defaults
entry by entry; DHTV and greedy calculate_mapping against the binary64 loop-level model on tie-free
masks (K 1..5, odd F 1..61, all segment configurations, metrics, algorithms) -- the "direct loop-level
transcription" clause -- and on the restoration-domain inputs.
Predicates (independent NumPy): plan covers every bin, stays inside [0, F), equals a transcription of
the documented construction; mapping == an independent NumPy transcription of the procedure; on the
property's domain (K 2..4, odd F 9..513, T >= 8, non-negative patterns with pairwise cosine <= 0.1,
multiplicative jitter <= 10 %) the composition of the injected permutation field with the returned
mapping is constant over frequency -- greedy aligner: arbitrary fields; DHTV: >= 70 % majority in the
first segment, later segments overlapping the aligned band by >= 2/3 (defaults for 512 / 1024 and custom
plans) --; consistent masks give the identity mapping; inputs not modified."""
import numpy as np
from harness import core
from harness.core import Case
from harness.props import permalign_common as pc

PID = 'C16'
REQUIRES = ['Run.C14', 'Run.C16']
SHARD = 6
RULE = ('plans: exhaustive (start, width, shift) per STFT size (quick: 5 sizes, thorough: all sizes 2..64), sampled '
        'exact comparisons incl. the 512/1024 defaults, invalid configurations must raise ValueError; loop '
        'transcription: continuous random masks K 1..5, odd F 1..61, T>=2, every metric / algorithm / segment '
        'configuration incl. width=F, width=1, shift=width, 0 iterations; restoration: K 2..4, odd F 9..513, T 8..32, '
        'cosine <= 0.1, jitter <= 10 %, random permutation fields; non-trivial: K>=2, F>=3 and the returned mapping '
        'is not the identity (restoration: the injected field is not constant); distinct by SHA-1 of inputs and options')
NOT_PROVED = ('the DHTV restoration clause (>= 70 % first-segment majority and >= 2/3 overlap => one class order in every '
              'bin): explored by the restoration predicate on every run (DHTV identity on consistent masks is proved '
              'given dominance of each bin against its segment centroid); binary64 rounding (the theorems are over '
              'the reals / any ordered carrier; exact mapping comparison on tie-free masks)')
ASSUMPTIONS = ['mask F equals stft_size // 2 + 1; F odd, K < 10 (asserted by the code); finite real masks']

HB, HM = 1000003, 2305843009213693951


def plan_hash(plan):
    h = 0
    for n, s, e in plan:
        for x in (n, s, e):
            h = (h * HB + int(x) + 1) % HM
    return h


def plan_pred(plan, stft, st, w, sh, mi, si):
    F = stft // 2 + 1
    cov = np.zeros(F, dtype=bool)
    for row in plan:
        if len(row) != 3:
            return 'plan row %s' % (row,), 'plan:shape'
        n, s, e = row
        if not (0 <= s < e <= F):
            return 'segment [%d, %d) is not a non-empty part of [0, %d)' % (s, e, F), 'plan:range'
        cov[s:e] = True
    if not cov.all():
        return ('bins %s are in no segment (stft %d start %d width %d shift %d)'
                % (np.nonzero(~cov)[0][:8].tolist(), stft, st, w, sh)), 'plan:coverage'
    if [list(map(int, r)) for r in plan] != pc.ref_plan(stft, st, w, sh, mi, si):
        return ('plan differs from the documented construction (stft %d start %d width %d shift %d): %s'
                % (stft, st, w, sh, plan)), 'plan:construction'
    if plan[0][0] != mi or any(r[0] != si for r in plan[1:]):
        return 'iteration counts in the plan are wrong', 'plan:iterations'
    return None


def get_plan(stft, st, w, sh, mi, si):
    return pc.make_dhtv(stft, st, w, sh, mi, si, 'cos', 'greedy').alignment_plan


# --------------------------------------------------------------------------- plans, exhaustive per size
def evaluate_plan_hash(rp):
    stft, mi, si = rp['stft'], rp['main'], rp['sub']
    F = stft // 2 + 1
    hashes = []
    for w in range(1, F + 1):
        for st in range(0, F - w + 1):
            for sh in range(1, w + 1):
                try:
                    plan = get_plan(stft, st, w, sh, mi, si)
                except Exception as e:
                    return ('alignment_plan raised %s: %s (stft %d start %d width %d shift %d)'
                            % (type(e).__name__, str(e)[:100], stft, st, w, sh)), 'plan:raises', None
                r = plan_pred(plan, stft, st, w, sh, mi, si)
                if r is not None:
                    return r[0], r[1], None
                hashes.append(plan_hash(plan))
    # documented: start + width > F is rejected
    try:
        get_plan(stft, F - 1, 2, 1, mi, si)
        if F >= 1:
            return 'start + width > F accepted (documented: ValueError)', 'plan:invalid_accepted', None
    except ValueError:
        pass
    coq = 'andR (check_plan_hashes %d %d %d %s) (check_plan_cover_all %d)' % (stft, mi, si, core.zlist(hashes), stft)
    return None, None, coq


def plan_hash_cases(rng, tier):
    sizes = [6, 13, 20, 31, 40] if tier == 'quick' else list(range(2, 65))
    out = []
    for stft in sizes:
        rp = {'fn': 'plan_hash', 'stft': stft, 'main': int(rng.integers(1, 30)), 'sub': int(rng.integers(0, 5))}
        fail, key, coq = evaluate_plan_hash(rp)
        name = 'plan exhaustive stft=%d' % stft
        out.append(Case(name, coq=coq, pred_fail=fail, key=key, nontrivial=stft >= 8, digest_=core.digest(name, rp['main'], rp['sub']),
                        sample={'name': name}, replay=rp, kind='plan-exhaustive'))
    return out


def evaluate_plan_exact(rp):
    items = []
    for stft, st, w, sh, mi, si in rp['configs']:
        try:
            plan = get_plan(stft, st, w, sh, mi, si)
        except Exception as e:
            return 'alignment_plan raised %s: %s' % (type(e).__name__, str(e)[:100]), 'plan:raises', None
        r = plan_pred(plan, stft, st, w, sh, mi, si)
        if r is not None:
            return r[0], r[1], None
        items.append('(%s, %s)' % (core.zlist([stft, st, w, sh, mi, si]), core.zmat(plan)))
    return None, None, 'check_plans [' + '; '.join(items) + ']'


def plan_exact_cases(rng, tier):
    out = []
    nb = 4 if tier == 'quick' else 40
    for b in range(nb):
        cfg = []
        if b == 0:
            cfg += [(512, 70, 100, 20, 20, 2), (1024, 100, 100, 20, 20, 2), (512, 0, 257, 20, 20, 2)]
        for _ in range(25):
            stft = int(rng.integers(2, 65)) if rng.random() < 0.7 else int(rng.choice([128, 256, 400, 512, 1024]))
            F = stft // 2 + 1
            st, w, sh = pc.plan_params(rng, F)
            cfg.append((stft, st, w, sh, int(rng.integers(0, 30)), int(rng.integers(0, 5))))
        rp = {'fn': 'plan_exact', 'configs': cfg}
        fail, key, coq = evaluate_plan_exact(rp)
        name = 'plan exact batch %d (%d configurations)' % (b, len(cfg))
        out.append(Case(name, coq=coq, pred_fail=fail, key=key, nontrivial=True, digest_=core.digest(cfg),
                        sample={'name': name, 'first': list(cfg[0])}, replay=rp, kind='plan-exact'))
    return out


# --------------------------------------------------------------------------- loop-level transcription
def build(rp):
    from pb_bss import permutation_alignment as pa
    if rp['which'] == 'dhtv':
        p = rp['params']
        return pc.make_dhtv(p['stft'], p['start'], p['width'], p['shift'], p['main'], p['sub'], rp['metric'], rp['algo'])
    return pc.make_greedy(rp['metric'], rp['algo'])


def coq_mapping(rp, mask, mapping):
    K, F, T = mask.shape
    m = pc.MET[rp['metric']]
    mp = pc.mapping_fk(np.clip(mapping, 0, 99))
    if rp['which'] == 'dhtv':
        p = rp['params']
        return 'check_dhtv %d %s %d %d %d %d %d %d %d %d %s %s' % (
            m, core.cbool(rp['algo'] == 'greedy'), K, T, p['stft'], p['start'], p['width'], p['shift'], p['main'],
            p['sub'], pc.bins(mask), mp)
    return 'check_greedy_chain %d %d %d %s %s' % (m, K, T, pc.bins(mask), mp)


def ref_mapping(rp, mask):
    if rp['which'] == 'dhtv':
        p = rp['params']
        plan = pc.ref_plan(p['stft'], p['start'], p['width'], p['shift'], p['main'], p['sub'])
        return pc.ref_dhtv(mask, plan, rp['metric'], rp['algo'])
    return pc.ref_greedy_chain(mask, rp['metric'])


def run_aligner(rp, mask):
    """returns (fail, key, mapping, aligned)"""
    tag = '%s:%s:%s' % (rp['which'], rp['metric'], rp['algo'])
    b = mask.tobytes()
    # history: another aligner with the same configuration was used before on a recording with fewer bins (band-limited
    # mask); whether that call is refused or not, it must not influence this one
    try:
        Fs = max(1, (mask.shape[1] // 2) | 1)
        build(rp).calculate_mapping(np.ascontiguousarray(mask[:, :Fs]))
    except Exception:
        pass
    try:
        al = build(rp)
        mapping = np.asarray(al.calculate_mapping(mask))
        aligned = al(mask)
    except Exception as e:
        return '%s raised %s: %s' % (rp['which'], type(e).__name__, str(e)[:200]), 'loop:raises:' + tag, None, None
    if mask.tobytes() != b:
        return 'caller array modified', 'loop:mutates:' + tag, None, None
    cv = core.container_variants(lambda m_: al.calculate_mapping(m_), [mask], mapping,
                                 lambda r_, e: np.array_equal(np.asarray(r_), e), recast_allow=('int',))
    if cv:
        return '%s: %s' % (rp['which'], cv), 'loop:container:' + tag, None, None
    return None, None, mapping, aligned


def evaluate_loop(rp):
    mask = pc.ro(rp['mask'])
    K, F, T = mask.shape
    tag = '%s:%s:%s' % (rp['which'], rp['metric'], rp['algo'])
    fail, key, mapping, aligned = run_aligner(rp, mask)
    if fail:
        return fail, key, None
    coq = coq_mapping(rp, mask, mapping) if mapping.shape == (K, F) else None
    r = pc.check_alignment_result(mask, mapping, aligned, K)
    if r is not None:
        return '%s (%s)' % (r[0], tag), 'loop:%s:%s' % (r[1], tag), coq
    ref = ref_mapping(rp, mask)
    if not np.array_equal(mapping, ref):
        f = int(np.argmax((mapping != ref).any(axis=0)))
        return ('%s: mapping differs from the loop-level transcription of the procedure, first at bin %d: %s vs %s'
                % (tag, f, mapping[:, f].tolist(), ref[:, f].tolist())), 'loop:net_reordering:' + tag, coq
    return None, None, coq


def loop_case(rng, tier, i):
    big = tier == 'thorough'
    which = 'dhtv' if rng.random() < 0.65 else 'greedy'
    metric = pc.METRICS[int(rng.integers(0, 3))]
    algo = 'greedy' if rng.random() < 0.6 else 'optimal'
    K = int(rng.integers(1, 6))
    F = pc.odd_F(rng, 1, 61 if big else 41)
    if K == 5 and algo == 'optimal' and which == 'dhtv':
        F = min(F, 13)
    T = int(rng.integers(2, 13))
    kind = 'cont' if rng.random() < 0.7 else 'unit'
    mask = pc.gen_mask(rng, K, F, T, kind)
    rp = {'fn': 'loop', 'which': which, 'metric': metric, 'algo': algo, 'mask': mask}
    if which == 'dhtv':
        st, w, sh = pc.plan_params(rng, F)
        rp['params'] = {'stft': pc.stft_of(F), 'start': st, 'width': w, 'shift': sh,
                        'main': int(rng.integers(0, 21)) if rng.random() < 0.8 else 20, 'sub': int(rng.integers(0, 4))}
    fail, key, coq = evaluate_loop(rp)
    name = 'loop %s K=%d F=%d T=%d %s %s %s %s' % (which, K, F, T, kind, metric, algo, rp.get('params', ''))
    return Case(name, coq=coq, pred_fail=fail, key=key, nontrivial=K >= 2 and F >= 3,
                digest_=core.digest(mask, which, metric, algo, sorted(rp.get('params', {}).items())),
                sample={'name': name, 'mask': core.small(mask, 4)}, replay=rp, kind='loop/' + which)


# --------------------------------------------------------------------------- restoration on the domain
def gen_patterns(rng, K, T, cmax=0.1):
    """non-negative activity patterns with pairwise cosine <= cmax"""
    for _ in range(300):
        owner = rng.integers(0, K, T)
        owner[rng.permutation(T)[:K]] = np.arange(K)
        leak = float(rng.choice([0.0, 0.02, 0.05, 0.1]))
        a = np.where(owner[None, :] == np.arange(K)[:, None], 0.5 + 0.5 * rng.random((K, T)), leak * rng.random((K, T)))
        a *= 0.5 + rng.random((K, 1))
        n = a / np.linalg.norm(a, axis=1, keepdims=True)
        c = n @ n.T
        np.fill_diagonal(c, 0.0)
        if c.max() <= cmax:
            return a
    return None


def overlap_ok(plan):
    """every later segment overlaps the band aligned so far by at least two thirds of its length"""
    lo, hi = plan[0][1], plan[0][2]
    for _, s, e in plan[1:]:
        if 3 * (min(e, hi) - max(s, lo)) < 2 * (e - s):
            return False
        lo, hi = min(lo, s), max(hi, e)
    return True


def evaluate_restore(rp):
    ref, field = pc.ro(rp['ref']), np.asarray(rp['field'])
    K, F, T = ref.shape
    tag = '%s:%s:%s' % (rp['which'], rp['metric'], rp['algo'])
    mask = pc.ro(np.stack([ref[field[:, f], f] for f in range(F)], axis=1))
    fail, key, mapping, aligned = run_aligner(rp, mask)
    if fail:
        return fail, key, None
    coq = coq_mapping(rp, mask, mapping) if (mapping.shape == (K, F) and rp.get('compare', True)) else None
    r = pc.check_alignment_result(mask, mapping, aligned, K)
    if r is not None:
        return '%s (%s)' % (r[0], tag), 'restore:%s:%s' % (r[1], tag), coq
    comp = np.stack([field[mapping[:, f], f] for f in range(F)], axis=1)      # class of aligned row k in bin f
    if not (comp == comp[:, :1]).all():
        f = int(np.argmax((comp != comp[:, :1]).any(axis=0)))
        return ('%s: class order after alignment is %s in bin 0 but %s in bin %d (K=%d F=%d T=%d, %s)'
                % (tag, comp[:, 0].tolist(), comp[:, f].tolist(), f, K, F, T, rp.get('params', ''))), \
            'restore:inconsistent:' + tag, coq
    if rp.get('identity') and not (mapping == np.arange(K)[:, None]).all():
        return '%s: an already consistent mask is not returned unchanged' % tag, 'restore:not_identity:' + tag, coq
    return None, None, coq


def restore_case(rng, tier, i, which=None, F=None, default=False, identity=False, level=None, metric=None):
    big = tier == 'thorough'
    if which is None and metric is None and level is None and i % 4 == 3:
        # the integer typed binary masks meet every aligner x metric combination in turn (both aligners with 'cos' in every run)
        which, metric = [('dhtv', 'cos'), ('greedy', 'cos'), ('dhtv', 'euclidean'), ('greedy', 'multiply'), ('dhtv', 'multiply'),
                         ('greedy', 'euclidean')][(i // 4) % 6]
    which = which or ('greedy' if rng.random() < 0.5 else 'dhtv')
    metric = metric or pc.METRICS[int(rng.integers(0, 3))]
    K = int(rng.integers(2, 5))
    T = int(rng.integers(8, 33))
    if F is None:
        F = pc.odd_F(rng, 9, 129 if big else 49)
    a = gen_patterns(rng, K, T)
    if a is None:
        return None
    jit = float(rng.choice([0.0, 0.03, 0.1]))
    ref = a[:, None, :] * (1.0 + jit * (2.0 * rng.random((K, F, T)) - 1.0))
    if level is not None:
        ref = ref * level
    elif i % 4 == 1:
        # masks are defined up to their level (posteriors times power, quiet or loud recordings): the same pattern field at
        # an extreme but finite level must be aligned the same way
        ref = ref * float(rng.choice([1e-90, 1e90, 1e-60, 1e60]))
    if i % 4 == 3:
        # binary masks, integer typed as in the library's own examples: every frame belongs to exactly one class
        lab = np.concatenate([np.arange(K), np.arange(K), rng.integers(0, K, T - 2 * K)]) if T >= 2 * K else np.arange(T) % K
        lab = lab[rng.permutation(len(lab))]
        ref = np.broadcast_to((lab[None, :] == np.arange(K)[:, None])[:, None, :], (K, F, T)).astype(np.int8)
        jit = 0.0
    rp = {'fn': 'restore', 'which': which, 'metric': metric, 'algo': 'greedy' if rng.random() < 0.7 else 'optimal',
          'ref': ref, 'identity': identity, 'compare': F <= (129 if big else 65)}
    if identity:
        field = np.tile(np.arange(K)[:, None], (1, F))
    else:
        field = np.stack([rng.permutation(K) for _ in range(F)], axis=1)
    if which == 'dhtv':
        stft = pc.stft_of(F)
        if default:
            st, w, sh = (70, 100, 20) if stft == 512 else (100, 100, 20)
        else:
            for _ in range(200):
                w = int(rng.integers(min(6, F), F + 1))
                st = int(rng.integers(0, F - w + 1))
                sh = int(rng.integers(1, max(1, w // 3) + 1))
                if overlap_ok(pc.ref_plan(stft, st, w, sh, 20, 2)):
                    break
            else:
                return None
        rp['params'] = {'stft': stft, 'start': st, 'width': w, 'shift': sh, 'main': 20, 'sub': 2}
        if not identity:
            s0, e0 = pc.ref_plan(stft, st, w, sh, 20, 2)[0][1:]
            n0 = e0 - s0
            keep = s0 + rng.permutation(n0)[: int(np.ceil(0.7 * n0 + 1e-9))]
            field[:, keep] = rng.permutation(K)[:, None]
    rp['field'] = field
    fail, key, coq = evaluate_restore(rp)
    name = 'restore %s K=%d F=%d T=%d jitter=%g %s %s%s %s' % (
        which, K, F, T, jit, metric, rp['algo'], ' identity' if identity else '', rp.get('params', ''))
    nontrivial = identity or not (field == field[:, :1]).all()
    return Case(name, coq=coq, pred_fail=fail, key=key, nontrivial=nontrivial,
                digest_=core.digest(ref, field, which, metric, rp['algo'], sorted(rp.get('params', {}).items())),
                sample={'name': name, 'field': core.small(field, 8)}, replay=rp,
                kind='%s/%s' % ('identity' if identity else 'restore', which))


# --------------------------------------------------------------------------- driver
def cases(rng, tier):
    q = tier == 'quick'
    out = plan_hash_cases(rng, tier) + plan_exact_cases(rng, tier)
    for i in range(50 if q else 500):
        out.append(loop_case(rng, tier, i))
    for i in range(36 if q else 360):
        c = restore_case(rng, tier, i)
        if c is not None:
            out.append(c)
    for i in range(10 if q else 100):
        c = restore_case(rng, tier, i, identity=True)
        if c is not None:
            out.append(c)
    # every aligner x every metric once at an extreme level
    lv = [1e-90, 1e90, 1e-60, 1e60]
    n_ = 0
    for which in ('greedy', 'dhtv'):
        for metric in pc.METRICS:
            for rep in range(1 if q else 4):
                c = restore_case(rng, tier, 0, which=which, metric=metric, level=lv[n_ % 4])
                n_ += 1
                if c is not None:
                    out.append(c)
    # the shipped defaults at their own sizes
    for F, n in ((257, 2 if q else 12), (513, 0 if q else 6)):
        for i in range(n):
            for which in ('dhtv', 'greedy'):
                c = restore_case(rng, tier, i, which=which, F=F, default=True)
                if c is not None:
                    out.append(c)
    return out


def search(rng, tier, hints):
    for c in plan_exact_cases(rng, 'quick') + plan_hash_cases(rng, 'quick'):
        if c.pred_fail:
            return [c]
    for i in range(400 if tier == 'quick' else 3000):
        c = loop_case(rng, 'thorough', i) if i % 2 else restore_case(rng, 'quick', i, identity=(i % 10 == 0))
        if c is not None and c.pred_fail:
            return [c]
    return []


EVAL = {'plan_hash': evaluate_plan_hash, 'plan_exact': evaluate_plan_exact, 'loop': evaluate_loop,
        'restore': evaluate_restore}


def replay(payload):
    rp = payload['replay']
    return EVAL[rp['fn']](rp)[0]
