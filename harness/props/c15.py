"""C15 -- oracle alignment is optimal and undoes any per-frequency permutation
(pb_bss/permutation_alignment.py: _ScoreMatrix, _mapping_from_score_matrix 'optimal',
OraclePermutationAlignment).

Correspondence (exact, decided inside Coq): the optimal assignment on ALL matrices over {0,1,2} for
K <= 3 and on random float / tied integer matrices K <= 6; optimal total >= greedy total under the
model's own summation; OraclePermutationAlignment.calculate_mapping against the binary64 model on
permuted references (all K!^F fields for K <= 3, F <= 3 in the thorough tier) and the model's
apply_bins(oracle(mask, ref), mask) == ref; the flattened (global) variant.
Predicates (independent NumPy / SciPy): optimal total == scipy.optimize.linear_sum_assignment optimum
and >= greedy total; mapping is a permutation; for references with pairwise distinct (normalised) rows
the oracle applied to any per-frequency permutation returns the reference exactly and the mapping is
the inverse field, for cos / euclidean / multiply and both algorithms; a global permutation is
resolved after joining frequency and time; inputs not modified."""
import itertools
import numpy as np
from harness import core
from harness.core import Case
from harness.props import permalign_common as pc
from harness.props import c14

PID = 'C15'
REQUIRES = ['Run.C14', 'Run.C15']
SHARD = 10
RULE = ('score matrices: exhaustive {0,1,2}^(KxK) for K<=3, random continuous and tied integer matrices K 1..6; '
        'references: continuous, binary with distinct rows, scaled copies (euclidean / multiply only), K 1..6, odd F, '
        'T>=2; permutation fields: all K!^F for K<=3 and F<=3 (thorough; sampled in quick), random beyond; metrics '
        'cos / euclidean / multiply x greedy / optimal; non-trivial: K>=2 and the field is not the identity; '
        'distinct by SHA-1 of inputs and options')
NOT_PROVED = ('binary64: the theorems are over the reals; that rounding does not reverse a strict real inequality '
              'between scores is checked per case (exact mapping comparison) but not proved')
ASSUMPTIONS = ['reference rows pairwise distinct per bin (normalised rows for cos), finite entries, K < 10, odd F']


# --------------------------------------------------------------------------- optimal vs scipy
def totals(S, mp):
    """sum_k S[..., k, mp[k, ...]] for a batch: S (N, K, K), mp (K, N)"""
    K = S.shape[-1]
    return np.array([sum(S[n, k, mp[k, n]] for k in range(K)) for n in range(S.shape[0])])


def lsa_max(S):
    from scipy.optimize import linear_sum_assignment
    out = []
    for n in range(S.shape[0]):
        r, c = linear_sum_assignment(S[n], maximize=True)
        out.append(S[n][r, c].sum())
    return np.array(out)


def evaluate_optimal(rp):
    from pb_bss.permutation_alignment import _mapping_from_score_matrix
    if rp.get('grid'):
        K = rp['K']
        ns = rp['start'] + np.arange(rp['count'], dtype=np.int64)
        S = c14.grid_matrices(K, ns)
        if rp['dtype'] == 'float':
            S = S.astype(np.float64) - 1.0
    else:
        S = np.asarray(rp['score'])
        K = S.shape[-1]
    S = pc.ro(S)
    b = S.tobytes()
    try:
        mo = _mapping_from_score_matrix(S, 'optimal')
        mg = _mapping_from_score_matrix(S, 'greedy')
    except Exception as e:
        return 'raised %s: %s' % (type(e).__name__, str(e)[:200]), 'optimal:raises', None
    if S.tobytes() != b:
        return 'score matrix modified', 'optimal:mutates', None
    flatS = S.reshape(-1, K, K)
    if mo.shape != (K, *S.shape[:-2]):
        return 'mapping shape %s' % (mo.shape,), 'optimal:shape', None
    fo, fg = mo.reshape(K, -1), mg.reshape(K, -1)
    if rp.get('grid'):
        coq = 'check_assign_grid false %d 3 %d 1 %s' % (K, rp['start'], core.zlist(pc.perm_codes(np.clip(fo, 0, K), K)))
    else:
        n3 = min(3, flatS.shape[0])
        parts = ['check_assign_float false %d %s %s' % (K, core.fmat(flatS[n].astype(float)), core.nlist(np.clip(fo[:, n], 0, 99)))
                 for n in range(n3)]
        parts += ['check_optimal_ge_greedy %d %s' % (K, core.fmat(flatS[n].astype(float))) for n in range(n3)]
        coq = 'allR [' + '; '.join(parts) + ']'
    if not pc.is_perm_field(fo, K):
        return 'optimal assignment is not a permutation', 'optimal:notperm', coq
    Sf = flatS.astype(np.float64)
    to, tg, best = totals(Sf, fo), totals(Sf, np.clip(fg, 0, K - 1)), lsa_max(Sf)
    tol = 1e-9 * np.maximum(1.0, np.abs(best))
    bad = np.nonzero(to < best - tol)[0]
    if len(bad):
        n = int(bad[0])
        return ('optimal assignment %s of %s has total %.12g, the linear-sum-assignment optimum is %.12g'
                % (fo[:, n].tolist(), Sf[n].tolist(), to[n], best[n])), 'optimal:not_max', coq
    bad = np.nonzero(to < tg - tol)[0]
    if len(bad):
        n = int(bad[0])
        return 'optimal total %.12g below greedy total %.12g' % (to[n], tg[n]), 'optimal:below_greedy', coq
    return None, None, coq


def optimal_grid_cases(tier):
    out = []
    chunk = 5000
    for K in (1, 2, 3):
        N = 3 ** (K * K)
        for dtype in ('int', 'float'):
            for s in range(0, N, chunk):
                rp = {'fn': 'optimal', 'grid': True, 'K': K, 'dtype': dtype, 'start': s, 'count': min(chunk, N - s)}
                fail, key, coq = evaluate_optimal(rp)
                name = 'optimal grid K=%d %s [%d,%d)' % (K, dtype, s, s + rp['count'])
                out.append(Case(name, coq=coq, pred_fail=fail, key=key, nontrivial=K >= 2, digest_=core.digest(name),
                                sample={'name': name}, replay=rp, kind='optimal-grid'))
    return out


def optimal_case(rng, tier, i):
    K = int(rng.integers(1, 7))
    lead = [(), (int(rng.integers(1, 6)),), (2, 2)][int(rng.integers(0, 3))]
    r = rng.random()
    if r < 0.4:
        S, kind = rng.normal(size=(*lead, K, K)) * 10.0 ** rng.integers(-2, 3), 'cont'
    elif r < 0.55:
        # totals that are nearly tied relative to their magnitude: a large common offset plus small integers
        # (exact in binary64, so the maximum is still decided exactly)
        off = float(rng.choice([1e6, 1e9, -1e7]))
        S, kind = off + rng.integers(0, 6, (*lead, K, K)).astype(np.float64), 'offset'
    elif r < 0.75:
        S, kind = rng.integers(-3, 4, (*lead, K, K)).astype(np.float64), 'tiedfloat'
    else:
        S, kind = rng.integers(0, 5, (*lead, K, K)).astype(np.int64), 'tiedint'
    rp = {'fn': 'optimal', 'score': S}
    fail, key, coq = evaluate_optimal(rp)
    name = 'optimal K=%d lead=%s %s' % (K, lead, kind)
    return Case(name, coq=coq, pred_fail=fail, key=key, nontrivial=K >= 2, digest_=core.digest(S),
                sample={'name': name, 'score': core.small(S, 4)}, replay=rp, kind='optimal/' + kind)


# --------------------------------------------------------------------------- oracle inversion
def gen_reference(rng, K, F, T, kind):
    """references whose class rows are pairwise distinct in every bin"""
    for _ in range(50):
        if kind == 'cont':
            r = rng.random((K, F, T)) + 0.05
        elif kind == 'binary':
            r = (rng.random((K, F, T)) < 0.5).astype(np.float64)
        elif kind == 'doctest':
            r = np.zeros((K, F, T))
            edges = np.linspace(0, T, K + 1).astype(int)
            for k in range(K):
                r[k, :, edges[k]:edges[k + 1]] = 1
        elif kind == 'scaled':          # rows are multiples of one pattern: distinct, but equal after normalisation
            base = rng.random((1, F, T)) + 0.1
            r = base * (1.0 + np.arange(K))[:, None, None]
        elif kind == 'signed':
            r = rng.normal(size=(K, F, T))
        elif kind == 'near':            # nearly uniform posteriors (silent bins): rows differ in the 9th digit only - still distinct
            r = 1.0 / K + 1e-9 * rng.normal(size=(K, F, T))
        else:
            raise ValueError(kind)
        ok = True
        for f in range(F):
            rows = {tuple(r[k, f].tolist()) for k in range(K)}
            if len(rows) < K:
                ok = False
        if ok:
            return np.ascontiguousarray(r)
    return None


def norm_rows_distinct(r, margin=1e-6):
    K, F, T = r.shape
    n = pc.ref_vnorm(r)
    for f in range(F):
        for i in range(K):
            for j in range(i + 1, K):
                if np.abs(n[i, f] - n[j, f]).max() <= margin:
                    return False
    return True


def rows_distinct(r, margin=1e-6):
    K, F, T = r.shape
    for f in range(F):
        for i in range(K):
            for j in range(i + 1, K):
                if np.abs(r[i, f] - r[j, f]).max() <= margin * max(1.0, np.abs(r[:, f]).max()):
                    return False
    return True


def in_domain(ref, metric):
    if metric == 'euclidean':
        return rows_distinct(ref, 1e-12)       # distances of differences: the matching row is at distance exactly 0
    return norm_rows_distinct(ref) if metric == 'cos' else rows_distinct(ref)


def evaluate_oracle(rp):
    from pb_bss.permutation_alignment import OraclePermutationAlignment, apply_mapping
    ref = pc.ro(rp['ref'])
    metric, algo = rp['metric'], rp['algo']
    K, F, T = ref.shape
    tag = '%s:%s' % (metric, algo)
    if rp.get('free_mask') is not None:
        # estimate unrelated to the reference: only the score matrices / assignment are observed
        mask = pc.ro(rp['free_mask'])
        field = None
    else:
        field = np.asarray(rp['field'])
        mask = pc.ro(np.stack([ref[field[:, f], f] for f in range(F)], axis=1))     # mask[k, f] = ref[field[k, f], f]
    b1, b2 = mask.tobytes(), ref.tobytes()
    try:
        al = OraclePermutationAlignment(metric, algo)
        mapping = al.calculate_mapping(mask, ref)
        aligned = al(mask, ref)
    except Exception as e:
        return 'oracle raised %s: %s' % (type(e).__name__, str(e)[:200]), 'oracle:raises:' + tag, None
    if mask.tobytes() != b1 or ref.tobytes() != b2:
        return 'caller array modified', 'oracle:mutates', None
    # the same aligner object serves further calls: other containers of the same values, and buffers refilled in place
    # since an earlier call, give the same mapping
    cv = core.container_variants(lambda m_, r_: al.calculate_mapping(m_, r_), [mask, ref], np.asarray(mapping),
                                 lambda r_, e: np.array_equal(np.asarray(r_), e))
    if cv:
        return 'oracle(%s): %s' % (tag, cv), 'oracle:container:' + tag, None
    coq = None
    if np.asarray(mapping).shape == (K, F) and K <= 5:
        m, g = pc.MET[metric], core.cbool(algo == 'greedy')
        coq = 'check_oracle %d %s %d %d %s %s %s' % (
            m, g, K, T, pc.bins(mask), pc.bins(ref), pc.mapping_fk(np.clip(mapping, 0, 99)))
        if field is not None:
            coq = 'andR (%s) (check_oracle_restores %d %s %d %d %s %s)' % (coq, m, g, K, T, pc.bins(mask), pc.bins(ref))
    r = pc.check_alignment_result(mask, mapping, aligned, K)
    if r is not None:
        return '%s (%s)' % (r[0], tag), 'oracle:%s:%s' % (r[1], tag), coq
    if field is None:
        expect = pc.ref_oracle(mask, ref, metric, algo)
        if not np.array_equal(np.asarray(mapping), expect):
            f = int(np.argmax((np.asarray(mapping) != expect).any(axis=0)))
            return ('oracle(%s): mapping of bin %d is %s, the assignment of the documented score matrix is %s'
                    % (tag, f, np.asarray(mapping)[:, f].tolist(), expect[:, f].tolist())), 'oracle:assignment:' + tag, coq
        return None, None, coq
    if not np.array_equal(aligned, ref):
        f = int(np.argmax((aligned != ref).any(axis=(0, 2))))
        return ('oracle(%s) does not return the reference: bin %d, injected order %s, mapping %s'
                % (tag, f, field[:, f].tolist(), np.asarray(mapping)[:, f].tolist())), 'oracle:not_restored:' + tag, coq
    inv = np.argsort(field, axis=0)
    if not np.array_equal(np.asarray(mapping), inv):
        return 'mapping is not the inverse of the injected field', 'oracle:not_inverse:' + tag, coq
    return None, None, coq


def oracle_case(rng, tier, i, K=None, F=None, field=None, kind=None, metric=None, algo=None):
    big = tier == 'thorough'
    metric = metric or pc.METRICS[int(rng.integers(0, 3))]
    algo = algo or ('greedy' if rng.random() < 0.5 else 'optimal')
    K = K or int(rng.integers(1, 7))
    F = F or pc.odd_F(rng, 1, 33 if big else 13)
    if K == 6 and algo == 'optimal':
        F = min(F, 5)
    T = int(rng.integers(2, 10))
    for _ in range(20):
        kd = kind or ['cont', 'cont', 'binary', 'doctest', 'scaled', 'signed'][int(rng.integers(0, 6))]
        if kd == 'doctest' and T < K:
            T = K + int(rng.integers(0, 4))
        ref = gen_reference(rng, K, F, T, kd)
        if ref is not None and in_domain(ref, metric):
            break
        kind = None
    else:
        return None
    if field is None:
        field = np.stack([rng.permutation(K) for _ in range(F)], axis=1)
    rp = {'fn': 'oracle', 'ref': ref, 'field': np.asarray(field), 'metric': metric, 'algo': algo}
    fail, key, coq = evaluate_oracle(rp)
    name = 'oracle K=%d F=%d T=%d %s %s %s' % (K, F, T, kd, metric, algo)
    nontrivial = K >= 2 and not (np.asarray(field) == np.arange(K)[:, None]).all()
    return Case(name, coq=coq, pred_fail=fail, key=key, nontrivial=nontrivial,
                digest_=core.digest(ref, np.asarray(field), metric, algo), sample={'name': name, 'field': core.small(np.asarray(field), 6)},
                replay=rp, kind='oracle/' + kd)


def oracle_free_case(rng, tier, i):
    metric = pc.METRICS[int(rng.integers(0, 3))]
    algo = 'greedy' if rng.random() < 0.5 else 'optimal'
    K, F, T = int(rng.integers(2, 6)), pc.odd_F(rng, 1, 9), int(rng.integers(2, 10))
    ref = pc.gen_mask(rng, K, F, T, 'cont') * (0.2 + 3.0 * rng.random((K, 1, 1)))
    mask = pc.gen_mask(rng, K, F, T, 'cont') * (0.2 + 3.0 * rng.random((K, 1, 1)))
    rp = {'fn': 'oracle', 'ref': ref, 'free_mask': mask, 'metric': metric, 'algo': algo}
    fail, key, coq = evaluate_oracle(rp)
    name = 'oracle-free K=%d F=%d T=%d %s %s' % (K, F, T, metric, algo)
    return Case(name, coq=coq, pred_fail=fail, key=key, nontrivial=True, digest_=core.digest(ref, mask, metric, algo),
                sample={'name': name}, replay=rp, kind='oracle-free')


def exhaustive_field_cases(rng, tier):
    """all K!^F permutation fields for K <= 3, F in {1, 3} (thorough); a sample in quick"""
    out = []
    for K in (1, 2, 3):
        perms = list(itertools.permutations(range(K)))
        for F in (1, 3):
            fields = list(itertools.product(perms, repeat=F))
            if tier == 'quick' and len(fields) > 12:
                sel = rng.choice(len(fields), 12, replace=False)
                fields = [fields[int(s)] for s in sel]
            for n, fl in enumerate(fields):
                field = np.array(fl).T           # (K, F)
                metric = pc.METRICS[n % 3]
                algo = ['greedy', 'optimal'][(n // 3) % 2]
                if tier == 'thorough':
                    for metric in pc.METRICS:
                        for algo in ('greedy', 'optimal'):
                            c = oracle_case(rng, tier, n, K=K, F=F, field=field, metric=metric, algo=algo,
                                            kind='cont' if n % 2 else None)
                            if c is not None:
                                c.kind = 'oracle-exhaustive'
                                out.append(c)
                else:
                    c = oracle_case(rng, tier, n, K=K, F=F, field=field, metric=metric, algo=algo)
                    if c is not None:
                        c.kind = 'oracle-exhaustive'
                        out.append(c)
    return out


# --------------------------------------------------------------------------- global permutation
def evaluate_global(rp):
    from pb_bss.permutation_alignment import OraclePermutationAlignment
    ref, perm, metric, algo = pc.ro(rp['ref']), np.asarray(rp['perm']), rp['metric'], rp['algo']
    K, F, T = ref.shape
    tag = '%s:%s' % (metric, algo)
    mask = pc.ro(ref[perm])
    try:
        mapping = OraclePermutationAlignment(metric, algo).calculate_mapping(
            mask.reshape(K, F * T), ref.reshape(K, F * T))
    except Exception as e:
        return 'oracle (flattened) raised %s: %s' % (type(e).__name__, str(e)[:200]), 'global:raises:' + tag, None
    mapping = np.asarray(mapping)
    coq = None
    if mapping.shape == (K,) and K <= 5:
        coq = 'check_oracle_global %d %s %d %d %s %s %s' % (
            pc.MET[metric], core.cbool(algo == 'greedy'), K, F * T, pc.bins(mask), pc.bins(ref), core.nlist(np.clip(mapping, 0, 99)))
    if mapping.shape != (K,) or not pc.is_perm_field(mapping, K):
        return 'flattened mapping %s is not a permutation of 0..%d' % (mapping.tolist(), K - 1), 'global:notperm:' + tag, coq
    if not np.array_equal(mask[mapping], ref):
        return ('global permutation %s not resolved: mapping %s' % (perm.tolist(), mapping.tolist()),
                'global:not_restored:' + tag, coq)
    return None, None, coq


def global_case(rng, tier, i, force=None):
    metric = pc.METRICS[int(rng.integers(0, 3))]
    algo = 'greedy' if rng.random() < 0.5 else 'optimal'
    K, F, T = int(rng.integers(1, 6)), pc.odd_F(rng, 1, 9), int(rng.integers(1, 6))
    if force is not None:
        metric, algo, K = force[0], force[1], int(force[2])
    for _ in range(20):
        kd = ['cont', 'binary', 'signed'][int(rng.integers(0, 3))]
        ref = gen_reference(rng, K, F, max(T, 2), kd)
        if ref is not None and in_domain(ref.reshape(K, 1, -1), metric):
            break
    else:
        return None
    perm = rng.permutation(K)
    if force is not None:
        perm = np.roll(np.arange(K), 1 + int(rng.integers(0, K - 1)))       # a cycle of full length: not its own inverse for K >= 3
    rp = {'fn': 'global', 'ref': ref, 'perm': perm, 'metric': metric, 'algo': algo}
    fail, key, coq = evaluate_global(rp)
    name = 'oracle-global K=%d F=%d T=%d %s %s %s' % (K, F, ref.shape[2], kd, metric, algo)
    return Case(name, coq=coq, pred_fail=fail, key=key, nontrivial=K >= 2 and not (perm == np.arange(K)).all(),
                digest_=core.digest(ref, perm, metric, algo), sample={'name': name, 'perm': perm.tolist()},
                replay=rp, kind='global')


# --------------------------------------------------------------------------- driver
def cases(rng, tier):
    q = tier == 'quick'
    out = optimal_grid_cases(tier)
    for i in range(30 if q else 300):
        out.append(optimal_case(rng, tier, i))
    out += exhaustive_field_cases(rng, tier)
    for i in range(45 if q else 450):
        c = oracle_case(rng, tier, i)
        if c is not None:
            out.append(c)
    for i in range(4 if q else 24):
        c = oracle_case(rng, tier, i, K=2 + i % 3, kind='near', metric='euclidean', algo=['greedy', 'optimal'][i % 2])
        if c is not None:
            out.append(c)
    for i in range(15 if q else 150):
        out.append(oracle_free_case(rng, tier, i))
    for i in range(12 if q else 120):
        c = global_case(rng, tier, i)
        if c is not None:
            out.append(c)
    # every metric x algorithm meets a global permutation that is not an involution (K = 3, 4: cycles)
    for rep in range(1 if q else 6):
        for metric in pc.METRICS:
            for algo in ('greedy', 'optimal'):
                c = global_case(rng, tier, rep, force=(metric, algo, 3 + rep % 2))
                if c is not None:
                    out.append(c)
    return out


def search(rng, tier, hints):
    for c in optimal_grid_cases('thorough'):
        if c.pred_fail:
            return [c]
    gens = [oracle_case, optimal_case, global_case, oracle_free_case]
    for i in range(600 if tier == 'quick' else 4000):
        c = gens[i % 4](rng, 'thorough', i)
        if c is not None and c.pred_fail:
            return [c]
    return []


EVAL = {'optimal': evaluate_optimal, 'oracle': evaluate_oracle, 'global': evaluate_global}


def replay(payload):
    rp = payload['replay']
    return EVAL[rp['fn']](rp)[0]
