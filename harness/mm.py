"""Shared glue for the seven mixture models of pb_bss.distribution: data generation, fitting with a
recorded E/M trace (Trainer._m_step wrapped from outside -- no source hook needed), the pieces `predict`
is made of (component log-pdf and broadcast weights), and option sampling.  Used by C01-C06, C08, C09, C20."""
import numpy as np

MODELS = ['cacgmm', 'cwmm', 'cbmm', 'gmm', 'vmfmm', 'gcacgmm', 'vmfcacgmm']
COMPLEX_MODELS = {'cacgmm', 'cwmm', 'cbmm'}
INTEGRATION = {'gcacgmm', 'vmfcacgmm'}


def trainer_cls(name):
    import pb_bss.distribution as d
    from pb_bss.distribution.cbmm import CBMMTrainer
    from pb_bss.distribution.gcacgmm import GCACGMMTrainer
    from pb_bss.distribution.vmfcacgmm import VMFCACGMMTrainer
    return {'cacgmm': d.CACGMMTrainer, 'cwmm': d.CWMMTrainer, 'cbmm': CBMMTrainer, 'gmm': d.GMMTrainer,
            'vmfmm': d.VMFMMTrainer, 'gcacgmm': GCACGMMTrainer, 'vmfcacgmm': VMFCACGMMTrainer}[name]


def tiny_of(a):
    return float(np.finfo(np.asarray(a).real.dtype).tiny)


# ----------------------------------------------------------------------------- data
def crandn(rng, shape):
    return rng.normal(size=shape) + 1j * rng.normal(size=shape)


def make_data(rng, name, K, D, N, lead=(), separation=2.0, E=None, shared_labels=False):
    """clustered data with K loose clusters; returns dict of arrays the trainer's fit takes"""
    lead = tuple(lead)
    if name in INTEGRATION:
        assert len(lead) == 1
        F = lead[0]
        E = E or 3
        lab = rng.integers(0, K, size=(F, N))
        if shared_labels:
            lab[:] = lab[0]
        a = crandn(rng, (F, K, D))
        obs = np.take_along_axis(a, lab[..., None], axis=1) * crandn(rng, (F, N, 1)) + crandn(rng, (F, N, D)) / separation
        mu = rng.normal(size=(K, E)) * separation
        emb = mu[lab] + rng.normal(size=(F, N, E))
        return {'observation': obs, 'embedding': emb, 'labels': lab}
    lab = rng.integers(0, K, size=(*lead, N))
    if shared_labels and lead:
        lab[...] = lab[(0,) * len(lead)]
    if name in COMPLEX_MODELS:
        a = crandn(rng, (*lead, K, D))
        y = np.take_along_axis(a, lab[..., None], axis=-2) * crandn(rng, (*lead, N, 1)) + crandn(rng, (*lead, N, D)) / separation
    else:
        mu = rng.normal(size=(*lead, K, D)) * separation
        y = np.take_along_axis(mu, lab[..., None], axis=-2) + rng.normal(size=(*lead, N, D))
    return {'y': y, 'labels': lab}


def permuted_partition_init(rng, labels, K, blur=0.2):
    """blurred one-hot of the true labels with the class order permuted independently per leading index"""
    lead = labels.shape[:-1]
    a = np.moveaxis(np.eye(K)[labels], -1, -2).copy()          # (..., K, N)
    for idx in np.ndindex(*lead):
        a[idx] = a[idx][rng.permutation(K)]
    a = (1 - blur) * a + blur / K
    return np.ascontiguousarray(a / a.sum(-2, keepdims=True))


def make_init(rng, K, N, lead=(), style='positive'):
    shape = (*lead, K, N)
    if style == 'positive':
        a = rng.uniform(0.05, 1.0, size=shape)
    elif style == 'onehot':
        lab = rng.integers(0, K, size=(*lead, N))
        # every class gets at least one observation
        for idx in np.ndindex(*lead):
            lab[idx][:K] = np.arange(K) if N >= K else lab[idx][:K]
        a = np.moveaxis(np.eye(K)[lab], -1, -2).copy()
    elif style == 'dirichlet':
        a = np.moveaxis(rng.dirichlet(np.ones(K), size=(*lead, N)), -1, -2).copy()
    else:
        raise ValueError(style)
    a = a / a.sum(-2, keepdims=True)
    return np.ascontiguousarray(a)


# ----------------------------------------------------------------------------- options
_SALSCALE = [0]


def sample_options(rng, name, K, N, lead, with_aligner=False):
    """trainer keyword options drawn over everything the property quantifies over"""
    o = {}
    nd = len(lead) + 2
    wcas = [(-1,), -1, [-1], -2]
    if nd >= 3:
        wcas += [(-3,), (-3, -1), -3]
    if name in INTEGRATION:
        # documented tying options of the integration models (docstring of fit): 'fk', 'kt', 'k', constant
        wcas = [(-1,), (-3,), (-3, -1), (-3, -2, -1), (-1, -3)]
    if rng.random() < 0.6:
        wca = wcas[int(rng.integers(0, len(wcas)))]
    else:
        wca = (-1,)
    o['weight_constant_axis'] = wca
    if rng.random() < 0.4:
        s = rng.uniform(0.2, 2.0, size=(*lead, N))
        if rng.random() < 0.3:
            s = np.floor(rng.uniform(1, 5, size=(*lead, N)))
        elif rng.random() < 0.35:
            # any non-negative saliency with positive sum: e.g. signal power of a quiet or loud recording
            _SALSCALE[0] += 1
            s = s * (1e-13, 1e-6, 1e4)[_SALSCALE[0] % 3]         # stratified: every scale in every run
        o['saliency'] = s
    if name == 'cacgmm':
        o['covariance_norm'] = [
            'eigenvalue', 'trace', False][int(rng.integers(0, 3))] if rng.random() < 0.5 else 'eigenvalue'
        o['hermitize'] = bool(rng.random() < 0.8)
        o['affiliation_eps'] = float(rng.choice([0.0, 1e-10, 1e-3]))
        o['eigenvalue_floor'] = float(rng.choice([1e-10, 1e-6, 1e-3]))
        if rng.random() < 0.3:
            m = rng.random((*lead, K, N)) < 0.8
            m[..., 0, :] |= ~m.any(axis=-2)        # at least one active source per observation (mostly)
            if rng.random() < 0.3:
                m[..., :, 0] = False               # one observation with every source inactive
            o['source_activity_mask'] = m
    if name == 'cbmm':
        o['affiliation_eps'] = float(rng.choice([0.0, 1e-10, 1e-3]))
    if name == 'gmm':
        o['covariance_type'] = ['full', 'diagonal', 'spherical'][int(rng.integers(0, 3))]
    if name == 'vmfmm':
        if rng.random() < 0.4:
            o['min_concentration'] = float(rng.choice([1e-10, 0.5]))
            o['max_concentration'] = float(rng.choice([500, 50, 5]))
    if name in INTEGRATION:
        o['covariance_norm'] = ['eigenvalue', 'trace', False][int(rng.integers(0, 3))] if rng.random() < 0.4 else 'eigenvalue'
        o['affiliation_eps'] = float(rng.choice([0.0, 1e-10, 1e-3]))
        o['spatial_weight'] = float(rng.choice([1.0, 0.5, 2.0]))
        o['spectral_weight'] = float(rng.choice([1.0, 0.3, 1.7]))
        if rng.random() < 0.3:
            o['hermitize'] = bool(rng.random() < 0.5)
        if rng.random() < 0.3:
            o['eigenvalue_floor'] = float(rng.choice([1e-10, 1e-6, 1e-3]))
        if name == 'vmfcacgmm' and rng.random() < 0.3:
            o['min_concentration'] = float(rng.choice([1e-10, 0.5]))
            o['max_concentration'] = float(rng.choice([500, 50, 5]))
        if name == 'gcacgmm':
            o['covariance_type'] = ['full', 'diagonal', 'spherical'][int(rng.integers(0, 3))]
        if rng.random() < 0.25 and K <= 3:
            o['inline_permutation_alignment'] = True
    if with_aligner and name in ('cacgmm', 'cwmm', 'cbmm') and nd == 3 and rng.random() < 0.5:
        from pb_bss.permutation_alignment import GreedyPermutationAlignment
        o['inline_permutation_aligner'] = GreedyPermutationAlignment(similarity_metric='cos')
        o['weight_constant_axis'] = [(-3,), (-3, -1), -3][int(rng.integers(0, 3))]
    return o


def describe_options(o):
    d = {}
    for k, v in o.items():
        if isinstance(v, np.ndarray):
            d[k] = 'array%s:%s' % (list(v.shape), v.dtype)
        elif hasattr(v, 'calculate_mapping'):
            d[k] = type(v).__name__
        else:
            d[k] = v
    return d


# ----------------------------------------------------------------------------- fit with trace
class Trace(list):
    pass


CONTAINER_STRATA = True
IN_WARMUP = [False]      # recorders of library-internal calls (eigh, least_squares taps) skip the warm-up fit


def container_mode(data, init):
    import zlib
    h = 0
    for k in sorted(data):
        h = zlib.crc32(np.ascontiguousarray(data[k]).tobytes()[:4096], h)
    h = zlib.crc32(np.ascontiguousarray(init).tobytes()[:4096], h)
    return (h >> 3) % 3        # 0 plain, 1 reused trainer + refilled buffers, 2 non-contiguous read-only views (a third each)


def _other(a):
    """a writable buffer of the same shape / dtype with other, equally valid values (reversed along the observation axis)"""
    a = np.asarray(a)
    b = np.array(a[..., ::-1, :] if a.ndim >= 2 else a[::-1], copy=True)
    if a.dtype.kind in 'fc':
        b = b * 0.5 if a.ndim < 2 or True else b
    return np.ascontiguousarray(b).astype(a.dtype)


def _view(a):
    """the same values as a non-contiguous view (last two axes stored transposed)"""
    a = np.asarray(a)
    if a.ndim < 2:
        return a
    t = np.ascontiguousarray(np.swapaxes(a, -1, -2))
    v = np.swapaxes(t, -1, -2)
    v.setflags(write=False)
    return v


def fit(name, data, init=None, num_classes=None, iterations=3, trainer=None, container=None, **opts):
    """run <Trainer>.fit and record, for every iteration, the arguments and the result of _m_step.
    Returns (model, trace); trace[i] = dict(affiliation=, quadratic_form=, model=)."""
    T = trainer if trainer is not None else trainer_cls(name)()
    # ---- the container of the values is part of "all inputs": derived deterministically from the input itself,
    # (a) the trainer object has been used before and the caller's data / start buffers were refilled in place since,
    # (b) data arrive as non-contiguous views with the same values.  Either way the fit is the same function of the values.
    mode = container_mode(data, init) if (CONTAINER_STRATA and trainer is None and isinstance(init, np.ndarray)) else 0
    if container is not None and trainer is None and isinstance(init, np.ndarray):
        mode = int(container)          # chosen by the caller's own stratification
    if mode == 1:
        bufs = {k: _other(v) for k, v in data.items()}
        ibuf = _other(init)
        # first of all a recording with another number of channels / features (not for the trainers that pin their dimension
        # at first use and refuse every other one afterwards: their histories are covered by C02 / C20)
        try:
            if name in ('cwmm', 'cbmm'):
                raise RuntimeError('skip')
            IN_WARMUP[0] = True
            wide = {k: np.concatenate([v, v[..., :1]], axis=-1) for k, v in bufs.items()}
            kw0 = dict(opts)
            kw0['initialization'] = ibuf
            if name in INTEGRATION:
                T.fit(wide['observation'], wide['embedding'], iterations=1, **kw0)
            else:
                T.fit(wide['y'], iterations=1, **kw0)
        except Exception:
            pass
        finally:
            IN_WARMUP[0] = False
        try:
            IN_WARMUP[0] = True
            kw0 = dict(opts)
            kw0['initialization'] = ibuf
            if name in INTEGRATION:
                T.fit(bufs['observation'], bufs['embedding'], iterations=min(2, iterations), **kw0)
            else:
                T.fit(bufs['y'], iterations=min(2, iterations), **kw0)
        except Exception:
            pass
        finally:
            IN_WARMUP[0] = False
        for k in bufs:
            bufs[k][...] = data[k]
        ibuf[...] = init
        orig_vals = (data, init)
        data, init = bufs, ibuf
    elif mode == 2:
        data = {k: _view(v) for k, v in data.items()}
    trace = Trace()
    orig = T._m_step

    def wrapped(*a, **kw):
        model = orig(*a, **kw)
        rec = {'model': model}
        if 'affiliation' in kw:
            rec['affiliation'] = np.array(kw['affiliation'])
        qf = kw.get('quadratic_form')
        if qf is None and name in ('cacgmm',) and len(a) >= 2:
            qf = a[1]
        if qf is None and name in INTEGRATION and len(a) >= 3:
            qf = a[2]
        if qf is not None:
            rec['quadratic_form'] = np.array(qf)
        trace.append(rec)
        return model
    T._m_step = wrapped
    try:
        kw = dict(opts)
        if init is not None:
            kw['initialization'] = init
        else:
            kw['num_classes'] = num_classes
        if name in INTEGRATION:
            model = T.fit(data['observation'], data['embedding'], iterations=iterations, **kw)
        else:
            model = T.fit(data['y'], iterations=iterations, **kw)
    finally:
        try:
            del T._m_step
        except AttributeError:
            T._m_step = orig
    if mode == 1:
        d0, i0 = orig_vals
        if any(not np.array_equal(data[k], d0[k]) for k in d0) or not np.array_equal(init, i0):
            raise CallerArrayModified('fit wrote into an array handed over by the caller')
    return model, trace


class CallerArrayModified(RuntimeError):
    pass


def predict(name, model, data, **kw):
    if name in INTEGRATION:
        return model.predict(data['observation'], data['embedding'])
    if name == 'gmm':
        return model.predict(data['y'])
    return model.predict(data['y'], **kw)


def normalized(name, data):
    """the observation as predict/fit normalise it (documented: projection to the unit sphere)"""
    if name in INTEGRATION:
        o = data['observation']
        o = o / np.maximum(np.linalg.norm(o, axis=-1, keepdims=True), tiny_of(o))
        return o
    y = data['y']
    if name == 'gmm':
        return y
    n = np.linalg.norm(y, axis=-1, keepdims=True)
    if name == 'cacgmm':
        return y / np.where(n == 0, tiny_of(y), n)
    return y / np.maximum(n, tiny_of(y))


def components(name, model, data, opts=None):
    """(log_pdf, weight) with shape (..., K, N) each: what Bayes' rule is applied to by `predict`:
    the component distribution's own log_pdf and the stored weights broadcast along the tied axes.
    opts: the configuration the trainer was called with; when given, the stream exponents of the integration models
    are taken from it (what the caller asked for), not from the attributes of the returned model."""
    from pb_bss.utils import unsqueeze
    if name == 'cacgmm':
        lp = _cacg_log_pdf(model.cacg, normalized(name, data))
        w = model.weight
    elif name == 'cwmm':
        lp = model.complex_watson.log_pdf(normalized(name, data)[..., None, :, :])
        w = model.weight
    elif name == 'cbmm':
        lp = model.complex_bingham.log_pdf(normalized(name, data)[..., None, :, :])
        w = model.weight
    elif name == 'gmm':
        lp = model.gaussian.log_pdf(data['y'][..., None, :, :])
        w = model.weight
    elif name == 'vmfmm':
        lp = model.vmf.log_pdf(normalized(name, data)[..., None, :, :])
        w = model.weight
    else:
        obs = normalized(name, data)
        emb = data['embedding']
        F, Tn, D = obs.shape
        E = emb.shape[-1]
        sp = _cacg_log_pdf(model.cacg, obs)                       # (F, K, T)
        if name == 'gcacgmm':
            comp = model.gaussian
        else:
            comp = model.vmf
            emb = emb / np.maximum(np.linalg.norm(emb, axis=-1, keepdims=True), tiny_of(emb))
        sl = comp.log_pdf(emb.reshape(1, F * Tn, E))              # (K, F*T)
        Kc = sl.shape[0]
        sl = np.transpose(sl.reshape(Kc, F, Tn), (1, 0, 2))
        a_sp = (opts or {}).get('spatial_weight', model.spatial_weight if opts is None else 1.0)
        a_sl = (opts or {}).get('spectral_weight', model.spectral_weight if opts is None else 1.0)
        lp = a_sp * sp + a_sl * sl
        w = unsqueeze(model.weight, model.weight_constant_axis)
    w = np.broadcast_to(w, np.broadcast_shapes(np.shape(w), lp.shape))
    return np.asarray(lp), np.asarray(w)


def _cacg_log_pdf(cacg, y_unit):
    """cACG log-pdf of already normalised observations (..., N, D) against (..., K, D, D) parameters.
    The public log_pdf renormalises its argument; with floored eigenvalues (1/lambda up to 1e10) that second
    rounding moves the value by up to ~1e-6, so the evaluation path of predict (_log_pdf on the unit vectors) is
    used when the class offers it."""
    if hasattr(cacg, '_log_pdf'):
        return cacg._log_pdf(np.swapaxes(y_unit[..., None, :, :], -1, -2))[0]
    return cacg.log_pdf(y_unit[..., None, :, :])


def stored_weight(name, model, shape):
    """the stored mixture weights broadcast to the affiliation shape (..., K, N)"""
    from pb_bss.utils import unsqueeze
    w = model.weight
    if name in INTEGRATION:
        w = unsqueeze(w, model.weight_constant_axis)
    return np.broadcast_to(np.asarray(w, dtype=float), shape)


def bayes(lp, w, mask=None):
    """independent evaluation of Bayes' rule in the log domain"""
    from scipy.special import logsumexp
    with np.errstate(divide='ignore'):
        lw = np.log(np.asarray(w, dtype=float))
    z = lp + lw
    if mask is not None:
        z = np.where(mask, z, -np.inf)
    den = logsumexp(z, axis=-2, keepdims=True)
    with np.errstate(invalid='ignore'):
        out = np.exp(z - den)
    return np.where(np.isfinite(den), out, 0.0)
