"""Confirm and file a seeded property-breaking change produced by an independent sub-agent, and run the
registered check against it.

  seeded.py confirm <src_dir> <seed_id> [--check Cxx[,Cyy]]   src_dir has patch.diff, demo.py, meta.json
  seeded.py run <seed_id> [--tier quick] [--check Cxx]        run check(s) against the seeded change

Everything happens in a throw-away git worktree of /repo (never in /repo itself); the worktree is removed at the
end.  Results are recorded in /verif/seeded/<seed_id>/meta.json under "confirmed" and "checks"."""
import json
import os
import shutil
import subprocess
import sys
import time
from pathlib import Path

VERIF = Path(__file__).resolve().parent.parent
SEEDED = VERIF / 'seeded'


def sh(cmd, cwd=None, env=None, timeout=3600):
    p = subprocess.run(cmd, shell=isinstance(cmd, str), cwd=cwd, env=env, stdout=subprocess.PIPE,
                       stderr=subprocess.STDOUT, text=True, timeout=timeout)
    return p.returncode, p.stdout


class Worktree:
    def __init__(self, tag):
        self.path = Path('/tmp/seedwt_%s_%d' % (tag, os.getpid()))

    def __enter__(self):
        sh(['git', '-C', '/repo', 'worktree', 'remove', '--force', str(self.path)])
        rc, out = sh(['git', '-C', '/repo', 'worktree', 'add', '--detach', str(self.path), 'HEAD'])
        assert rc == 0, out
        return self.path

    def __exit__(self, *a):
        sh(['git', '-C', '/repo', 'worktree', 'remove', '--force', str(self.path)])
        shutil.rmtree(self.path, ignore_errors=True)


def run_demo(wt, demo):
    env = dict(os.environ, PYTHONPATH=str(wt), PYTHONHASHSEED='0', OMP_NUM_THREADS='1')
    rc, out = sh(['/venv/bin/python', str(demo)], cwd=str(wt), env=env, timeout=1800)
    return rc, out[-1500:]


def confirm(src, seed_id, checks):
    src = Path(src)
    dst = SEEDED / seed_id
    dst.mkdir(parents=True, exist_ok=True)
    for f in ('patch.diff', 'demo.py', 'meta.json'):
        shutil.copy(src / f, dst / f)
    meta = json.loads((dst / 'meta.json').read_text())
    rec = {'when': time.strftime('%Y-%m-%d %H:%M:%S'), 'repo_head': sh(['git', '-C', '/repo', 'rev-parse', '--short', 'HEAD'])[1].strip()}
    with Worktree(seed_id) as wt:
        rc0, out0 = run_demo(wt, dst / 'demo.py')
        rca, outa = sh(['git', '-C', str(wt), 'apply', str(dst / 'patch.diff')])
        rec['patch_applies'] = rca == 0
        rc1, out1 = run_demo(wt, dst / 'demo.py') if rca == 0 else (None, outa)
        rec['demo_clean_exit'] = rc0
        rec['demo_patched_exit'] = rc1
        rec['demo_patched_tail'] = out1[-400:] if out1 else ''
        rcb, outb = sh([str(VERIF / 'bin' / 'baseline_check'), str(wt)], timeout=3600) if rca == 0 else (1, '')
        rec['baseline_with_patch'] = outb.strip().splitlines()[-1] if outb.strip() else ''
        rec['baseline_ok'] = rcb == 0
        rec['ok'] = bool(rca == 0 and rc0 == 0 and rc1 not in (0, None) and rcb == 0)
        meta['confirmed'] = rec
        meta.setdefault('checks', {})
        if rec['ok']:
            for pid in checks:
                meta['checks'][pid] = run_check(wt, pid, 'quick')
    (dst / 'meta.json').write_text(json.dumps(meta, indent=1))
    print(json.dumps({'seed': seed_id, 'confirmed': rec['ok'], 'demo_clean': rc0, 'demo_patched': rc1,
                      'baseline': rec['baseline_with_patch'], 'checks': meta['checks']}, indent=1))
    return 0 if rec['ok'] else 1


def run_check(wt, pid, tier):
    env = dict(os.environ, PB_BSS_REPO=str(wt))
    t0 = time.time()
    rc, out = sh([str(VERIF / 'bin' / 'vcheck'), 'run', pid, '--tier', tier], cwd=str(VERIF), env=env, timeout=7200)
    lines = [l for l in out.splitlines() if l.startswith('VIOLATION') or l.startswith('KNOWN-FINDING')]
    return {'tier': tier, 'exit': rc, 'caught': rc == 1 and any(l.startswith('VIOLATION') for l in lines),
            'lines': lines[:4], 'summary': out.strip().splitlines()[-1][:300] if out.strip() else '', 'wall_s': round(time.time() - t0, 1),
            'repo_head': sh(['git', '-C', '/repo', 'rev-parse', '--short', 'HEAD'])[1].strip(),
            'note': 'run with PB_BSS_REPO pointing at a scratch worktree of /repo HEAD with the patch applied; '
                    'the evidence file written by this run was restored afterwards'}


def run(seed_id, checks, tier):
    dst = SEEDED / seed_id
    meta = json.loads((dst / 'meta.json').read_text())
    checks = checks or [meta.get('property')]
    with Worktree(seed_id) as wt:
        rca, outa = sh(['git', '-C', str(wt), 'apply', str(dst / 'patch.diff')])
        assert rca == 0, outa
        for pid in checks:
            ev = VERIF / 'evidence' / ('%s.json' % pid)
            keep = ev.read_text() if ev.exists() else None
            meta.setdefault('checks', {})[pid] = run_check(wt, pid, tier)
            if keep is not None:
                ev.write_text(keep)
            print(seed_id, pid, json.dumps(meta['checks'][pid])[:500])
    if not os.environ.get('SEEDED_NO_WRITE'):          # alternative-seed sweeps do not overwrite the recorded result
        (dst / 'meta.json').write_text(json.dumps(meta, indent=1))


def main():
    a = sys.argv[1:]
    checks = []
    tier = 'quick'
    if '--check' in a:
        i = a.index('--check')
        checks = a[i + 1].split(',')
        del a[i:i + 2]
    if '--tier' in a:
        i = a.index('--tier')
        tier = a[i + 1]
        del a[i:i + 2]
    if a[0] == 'confirm':
        # keep evidence files of the unchanged tree intact
        keeps = {p: (VERIF / 'evidence' / ('%s.json' % p)) for p in checks}
        saved = {p: f.read_text() for p, f in keeps.items() if f.exists()}
        rc = confirm(a[1], a[2], checks)
        for p, txt in saved.items():
            keeps[p].write_text(txt)
        return rc
    if a[0] == 'run':
        return run(a[1], checks, tier)




def table():
    """markdown table of all seeded changes (Appendix E of DESIGN.md)"""
    rows = ['| seed | property | what it breaks / what it needs to manifest | confirmed (demo fails with patch, passes without; baseline 542/542) | checks run -> caught |',
            '|------|----------|---------------------------------------------|------|------|']
    for d in sorted(SEEDED.glob('*/meta.json')):
        m = json.loads(d.read_text())
        c = m.get('confirmed', {})
        chk = '; '.join('%s %s: %s' % (p, r.get('tier', ''), 'CAUGHT' if r.get('caught') else 'missed') for p, r in sorted(m.get('checks', {}).items()))
        what = str(m.get('what_it_breaks', m.get('title', '')))[:170].replace('|', '/').replace('\n', ' ')
        need = str(m.get('needs_to_manifest', ''))[:170].replace('|', '/').replace('\n', ' ')
        if m.get('status', '').startswith('superseded'):
            chk = 'superseded by a fix in /repo (no longer a violation): ' + chk
        rows.append('| %s | %s | %s -- needs: %s | %s | %s |' % (d.parent.name, m.get('property', ''), what, need,
                                                            'yes' if c.get('ok') else 'NO', chk))
    return '\n'.join(rows)


if __name__ == '__main__':
    if len(sys.argv) > 1 and sys.argv[1] == 'table':
        print(table())
    else:
        sys.exit(main())
