"""vcheck -- command line of the verification harness.
  vcheck setup                      clean full build of the Coq development + forbidden-construct scan
  vcheck run Cxx [--tier quick|thorough] [--seed N]
  vcheck replay <path>              re-run a replay file against the current /repo tree
  vcheck selftest                   expF/lnF against libm
"""
import argparse
import importlib
import json
import sys
from pathlib import Path

sys.path.insert(0, str(Path(__file__).resolve().parent.parent))
from harness import core  # noqa


def main():
    ap = argparse.ArgumentParser()
    sub = ap.add_subparsers(dest='cmd', required=True)
    sub.add_parser('setup')
    r = sub.add_parser('run')
    r.add_argument('pid')
    r.add_argument('--tier', default=None)
    r.add_argument('--seed', type=int, default=None)
    p = sub.add_parser('replay')
    p.add_argument('path')
    sub.add_parser('selftest')
    a = ap.parse_args()
    if a.cmd == 'setup':
        hits = core.forbidden_scan()
        if hits:
            print('forbidden constructs in the Coq development:\n' + '\n'.join(hits))
            return 2
        # clean full .vo build (make -k: keep going), then require every file a claimed check needs
        ok, out = core.build(clean=True, keep_going=True)
        print(out[-2500:])
        man = json.loads((core.VERIF / 'MANIFEST.json').read_text())
        bad = []
        for c in man['checks']:
            pid = c['property_id']
            mod = importlib.import_module('harness.props.%s' % pid.lower())
            ok2, out2 = core.build_for(['Properties/%s.v' % pid] + ['%s.v' % r.replace('.', '/') for r in mod.REQUIRES])
            if not ok2:
                bad.append((pid, out2[-600:]))
        for pid, why in bad:
            print('SETUP: files needed by %s do not build: %s' % (pid, why))
        print('BUILD', 'OK' if not bad else 'FAILED', '(full make %s)' % ('complete' if ok else 'had errors in files no claimed check needs'))
        return 0 if not bad else 2
    if a.cmd == 'run':
        tier, seed = core.tier_and_seed(a.tier, a.seed)
        hits = core.forbidden_scan()
        if hits:
            print('forbidden constructs in the Coq development:\n' + '\n'.join(hits))
            return 2
        mod = importlib.import_module('harness.props.%s' % a.pid.lower())
        return core.run_property(mod, tier, seed)
    if a.cmd == 'replay':
        payload = core.unjson(json.loads(Path(a.path).read_text()))
        core.import_repo()
        mod = importlib.import_module('harness.props.%s' % payload['property'].lower())
        if payload.get('kind') == 'no-failing-input-found':
            print('replay names broken obligations / correspondences (no failing input was found):')
            print(json.dumps(core.jsonable(payload.get('broken')), indent=1)[:4000])
            return 1
        fail = mod.replay(payload)
        print('REPLAY', 'FAILS: %s' % fail if fail else 'passes (property predicate holds on this input now)')
        return 1 if fail else 0
    if a.cmd == 'selftest':
        from harness import selftest
        return selftest.main()


if __name__ == '__main__':
    sys.exit(main())
