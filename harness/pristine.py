"""harness/pristine.py <in.pkl> <out.pkl> -- run ONE trainer fit in a process that has done nothing else (C20: the result of a
call must not depend on what the process computed before - trainers of other configurations included).  The arguments
are unpickled, the fit is run exactly as harness/props/c20.py runs it, the flattened result is pickled back."""
import pickle
import sys

sys.path.insert(0, str(__import__('pathlib').Path(__file__).resolve().parents[1]))
from harness.props import c20      # noqa: E402  (harness.core puts the repository under test on sys.path)


def main():
    cls, ctor, call = pickle.load(open(sys.argv[1], 'rb'))
    T = c20._make_trainer(cls, ctor)
    res = c20._do_fit(T, cls, call)
    pickle.dump(c20.flat_result(res), open(sys.argv[2], 'wb'))


if __name__ == '__main__':
    main()
