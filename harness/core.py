"""Core of the verification harness: Coq build / assumption audit, transport of numbers to
Coq literals, evaluation of generated case files by coqc (vm_compute), verdict logic,
known findings, replay files and evidence files.  See /verif/DESIGN.md sections 4 and 5."""
import os
import sys

os.environ.setdefault('OMP_NUM_THREADS', '1')
os.environ.setdefault('OPENBLAS_NUM_THREADS', '1')
os.environ.setdefault('MKL_NUM_THREADS', '1')
os.environ.setdefault('PYTHONHASHSEED', '0')

import hashlib
import json
import math
import re
import shutil
import subprocess
import time
import traceback
from concurrent.futures import ThreadPoolExecutor
from pathlib import Path

VERIF = Path(__file__).resolve().parent.parent
COQ = VERIF / 'coq'
GEN = COQ / 'gen'
WORK = VERIF / '_work'
EVIDENCE = VERIF / 'evidence'
REPO = Path(os.environ.get('PB_BSS_REPO', '/repo'))
KNOWN = VERIF / 'known_findings.json'
COQFLAGS = ['-Q', str(COQ), 'PB']

# axioms a property theorem may depend on: all declared by the Coq standard library
ALLOWED_AXIOMS = {
    'ClassicalDedekindReals.sig_forall_dec',
    'ClassicalDedekindReals.sig_not_dec',
    'FunctionalExtensionality.functional_extensionality_dep',
    'Classical_Prop.classic',
    'ProofIrrelevance.proof_irrelevance',
    'Eqdep.Eq_rect_eq.eq_rect_eq',
    'JMeq.JMeq_eq',
    'PropExtensionality.propositional_extensionality',
}
FORBIDDEN = re.compile(
    r'\b(Admitted|admit|Axiom|Axioms|Parameter|Parameters|Conjecture|Conjectures|'
    r'Admit Obligations|Unset Guard Checking|Unset Positivity Checking|Unset Universe Checking|'
    r'bypass_check|type-in-type|impredicative-set|native_compute)\b')


def import_repo():
    """Make /repo's current working tree the pb_bss that gets imported."""
    p = str(REPO)
    if p in sys.path:
        sys.path.remove(p)
    sys.path.insert(0, p)
    import warnings
    warnings.filterwarnings('ignore')
    import numpy as np
    np.seterr(all='ignore')
    import pb_bss  # noqa
    assert Path(pb_bss.__file__).resolve().parent.parent == REPO.resolve(), pb_bss.__file__
    return pb_bss


# --------------------------------------------------------------------------- transport
def fhex(x):
    """binary64 -> Coq float literal (exact)."""
    x = float(x)
    if math.isnan(x):
        return 'nan'
    if math.isinf(x):
        return 'infinity' if x > 0 else 'neg_infinity'
    if x == 0:
        return '(-0)' if math.copysign(1.0, x) < 0 else '0'
    h = x.hex()  # like -0x1.8p+3
    return '(' + h + ')' if h.startswith('-') else h


def flist(xs):
    return '[' + '; '.join(fhex(v) for v in xs) + ']%float'


def fmat(rows):
    """list of lists of floats"""
    return '[' + '; '.join(flist(r) for r in rows) + ']'


def cpair(z):
    z = complex(z)
    return '(' + fhex(z.real) + ', ' + fhex(z.imag) + ')'


def clist(zs):
    return '[' + '; '.join(cpair(z) for z in zs) + ']%float'


def cmat(rows):
    return '[' + '; '.join(clist(r) for r in rows) + ']'


def nlist(xs):
    return '[' + '; '.join(str(int(v)) for v in xs) + ']%nat'


def nmat(rows):
    return '[' + '; '.join(nlist(r) for r in rows) + ']'


def zlist(xs):
    return '[' + '; '.join(('(%d)' % int(v)) if int(v) < 0 else str(int(v)) for v in xs) + ']%Z'


def zmat(rows):
    return '[' + '; '.join(zlist(r) for r in rows) + ']'


def blist(xs):
    return '[' + '; '.join('true' if v else 'false' for v in xs) + ']'


def cbool(b):
    return 'true' if b else 'false'


def digest(*objs):
    h = hashlib.sha1()
    for o in objs:
        try:
            import numpy as np
            if isinstance(o, np.ndarray):
                h.update(str(o.dtype).encode() + str(o.shape).encode() + np.ascontiguousarray(o).tobytes())
                continue
        except Exception:
            pass
        h.update(repr(o).encode())
    return h.hexdigest()


def jsonable(o):
    """Exact JSON rendering of inputs for replay files (floats as hex strings)."""
    import numpy as np
    if isinstance(o, np.ndarray):
        if o.dtype == bool:
            return {'__nd__': 'bool', 'shape': list(o.shape), 'data': [bool(v) for v in o.ravel()]}
        if np.iscomplexobj(o):
            return {'__nd__': str(o.dtype), 'shape': list(o.shape),
                    'data': [[float(v.real).hex(), float(v.imag).hex()] for v in o.ravel()]}
        if np.issubdtype(o.dtype, np.integer):
            return {'__nd__': str(o.dtype), 'shape': list(o.shape), 'data': [int(v) for v in o.ravel()]}
        return {'__nd__': str(o.dtype), 'shape': list(o.shape), 'data': [float(v).hex() for v in o.ravel()]}
    if isinstance(o, (np.floating, float)):
        return {'__f__': float(o).hex()}
    if isinstance(o, (np.integer,)):
        return int(o)
    if isinstance(o, (np.bool_,)):
        return bool(o)
    if isinstance(o, complex):
        return {'__c__': [float(o.real).hex(), float(o.imag).hex()]}
    if isinstance(o, dict):
        return {str(k): jsonable(v) for k, v in o.items()}
    if isinstance(o, (list, tuple)):
        return [jsonable(v) for v in o]
    if o is None or isinstance(o, (str, int, bool)):
        return o
    return repr(o)


def unjson(o):
    import numpy as np
    if isinstance(o, dict):
        if '__nd__' in o:
            dt = o['__nd__']
            if dt == 'bool':
                return np.array(o['data'], dtype=bool).reshape(o['shape'])
            if dt.startswith('complex'):
                a = np.array([complex(float.fromhex(r), float.fromhex(i)) for r, i in o['data']], dtype=dt)
                return a.reshape(o['shape'])
            if dt.startswith('int') or dt.startswith('uint'):
                return np.array(o['data'], dtype=dt).reshape(o['shape'])
            return np.array([float.fromhex(v) for v in o['data']], dtype=dt).reshape(o['shape'])
        if '__f__' in o:
            return float.fromhex(o['__f__'])
        if '__c__' in o:
            return complex(float.fromhex(o['__c__'][0]), float.fromhex(o['__c__'][1]))
        return {k: unjson(v) for k, v in o.items()}
    if isinstance(o, list):
        return [unjson(v) for v in o]
    return o


def small(o, n=6):
    """Short human-readable rendering for evidence samples."""
    import numpy as np
    if isinstance(o, np.ndarray):
        flat = o.ravel()[:n]
        return {'shape': list(o.shape), 'dtype': str(o.dtype), 'head': [str(v) for v in flat]}
    if isinstance(o, dict):
        return {str(k): small(v, n) for k, v in o.items()}
    if isinstance(o, (list, tuple)):
        return [small(v, n) for v in list(o)[:n]]
    if isinstance(o, (np.floating, np.integer, np.bool_)):
        return o.item()
    if o is None or isinstance(o, (str, int, float, bool)):
        return o
    return repr(o)


# --------------------------------------------------------------------------- Coq side
def sh(cmd, timeout=None, cwd=None):
    p = subprocess.run(cmd, stdout=subprocess.PIPE, stderr=subprocess.STDOUT, text=True,
                       timeout=timeout, cwd=cwd)
    return p.returncode, p.stdout


def coq_sources():
    out = []
    for sub in ('Base', 'Model', 'Proofs', 'Properties', 'Run'):
        out += sorted((COQ / sub).glob('*.v'))
    return out


def forbidden_scan():
    """No Axiom/Parameter/Admitted/... anywhere in the development (comments stripped)."""
    hits = []
    for f in coq_sources():
        txt = f.read_text()
        txt = strip_comments(txt)
        for i, line in enumerate(txt.splitlines(), 1):
            m = FORBIDDEN.search(line)
            if m:
                hits.append('%s:%d: %s' % (f.relative_to(COQ), i, m.group(0)))
            if re.match(r'\s*(Variable|Variables|Hypothesis|Hypotheses|Context)\b', line):
                # allowed only inside a Section: checked structurally below
                pass
        hits += toplevel_variables(f, txt)
    return hits


def strip_comments(txt):
    out, depth, i = [], 0, 0
    while i < len(txt):
        if txt.startswith('(*', i):
            depth += 1
            i += 2
        elif txt.startswith('*)', i) and depth > 0:
            depth -= 1
            i += 2
        else:
            if depth == 0:
                out.append(txt[i])
            elif txt[i] == '\n':
                out.append('\n')
            i += 1
    return ''.join(out)


def toplevel_variables(f, txt):
    hits, depth = [], 0
    for i, line in enumerate(txt.splitlines(), 1):
        if re.match(r'\s*Section\b', line):
            depth += 1
        elif re.match(r'\s*End\b', line) and depth > 0:
            depth -= 1
        elif depth == 0 and re.match(r'\s*(Variable|Variables|Hypothesis|Hypotheses)\b', line):
            hits.append('%s:%d: Variable/Hypothesis outside a section' % (f.relative_to(COQ), i))
    return hits


def write_coqproject():
    files = [str(f.relative_to(COQ)) for f in coq_sources()]
    (COQ / '_CoqProject').write_text('-Q . PB\n-arg -w -arg -all\n' + '\n'.join(files) + '\n')


def build(clean=False, jobs=16, timeout=3000, keep_going=False):
    """Full .vo build of the development (incremental unless clean)."""
    write_coqproject()
    if clean:
        sh(['bash', '-c', 'rm -rf gen; find . -name "*.vo" -o -name "*.vok" -o -name "*.vos" -o -name "*.glob" '
            '-o -name ".*.aux" -o -name "*.d" | xargs rm -f; rm -f Makefile Makefile.conf .Makefile.d'], cwd=COQ)
    rc, out = sh(['coq_makefile', '-f', '_CoqProject', '-o', 'Makefile'], cwd=COQ, timeout=120)
    if rc != 0:
        return False, out
    rc, out = sh(['timeout', str(timeout), 'make', '-j%d' % jobs, 'COQC=timeout 900 coqc'] + (['-k'] if keep_going else []),
                 cwd=COQ, timeout=timeout + 30)
    return rc == 0, out


def _deps():
    """module dependency graph of the development from coqdep: {file: [files it requires]}"""
    files = [str(f.relative_to(COQ)) for f in coq_sources()]
    rc, out = sh(['coqdep', '-Q', '.', 'PB'] + files, cwd=COQ, timeout=120)
    g = {}
    for line in out.splitlines():
        if ':' not in line:
            continue
        lhs, rhs = line.split(':', 1)
        tgt = [t for t in lhs.split() if t.endswith('.vo')]
        if not tgt:
            continue
        src = tgt[0][:-1]
        g[src] = [d[:-1] for d in rhs.split() if d.endswith('.vo') and not d.startswith('/')]
    return g


def build_for(targets, timeout=600):
    """Compile (only) the given files and what they depend on, if stale; one builder at a time (flock),
    so a file someone else is editing cannot break this property's build."""
    import fcntl
    lock = open(COQ / '.build.lock', 'w')
    fcntl.flock(lock, fcntl.LOCK_EX)
    try:
        g = _deps()
        order, seen = [], set()

        def visit(f):
            if f in seen:
                return
            seen.add(f)
            for d in g.get(f, []):
                visit(d)
            order.append(f)
        for t in targets:
            if (COQ / t).exists():
                visit(t)
        rebuilt = set()
        for f in order:
            src, vo = COQ / f, (COQ / f).with_suffix('.vo')
            stale = (not vo.exists()) or vo.stat().st_mtime < src.stat().st_mtime or \
                any(d in rebuilt or (COQ / d).with_suffix('.vo').stat().st_mtime > vo.stat().st_mtime
                    for d in g.get(f, []))
            if stale:
                rc, out = sh(['timeout', str(timeout), 'coqc'] + COQFLAGS + ['-w', '-all', str(src)], cwd=COQ,
                             timeout=timeout + 30)
                if rc != 0:
                    return False, '%s: %s' % (f, out[-1500:])
                rebuilt.add(f)
        return True, 'rebuilt: %s' % sorted(rebuilt)
    finally:
        fcntl.flock(lock, fcntl.LOCK_UN)
        lock.close()


def theorem_names(pid):
    txt = strip_comments((COQ / 'Properties' / ('%s.v' % pid)).read_text())
    return re.findall(r'^\s*Theorem\s+([A-Za-z0-9_\']+)', txt, flags=re.M)


def audit_property(pid, timeout=600):
    """Fresh coqc of Properties/<pid>.v, then Print Assumptions per theorem.
    Returns dict: theorems, discharged (list), broken (list of (name, why)), axioms {name:[..]}"""
    src = COQ / 'Properties' / ('%s.v' % pid)
    res = {'theorems': [], 'discharged': [], 'broken': [], 'axioms': {}, 'log': ''}
    if not src.exists():
        res['broken'].append((pid, 'Properties/%s.v missing' % pid))
        return res
    names = theorem_names(pid)
    res['theorems'] = names
    vo = src.with_suffix('.vo')
    if vo.exists():
        vo.unlink()
    rc, out = sh(['timeout', str(timeout), 'coqc'] + COQFLAGS + ['-w', '-all', str(src)], cwd=COQ, timeout=timeout + 30)
    res['log'] = out[-4000:]
    if rc != 0:
        for n in names or [pid]:
            res['broken'].append((n, 'Properties/%s.v does not compile: %s' % (pid, out.strip()[-400:])))
        return res
    GEN.mkdir(exist_ok=True)
    drv = GEN / ('assume_%s.v' % pid)
    lines = ['From PB Require Import Properties.%s.' % pid]
    for n in names:
        lines.append('Goal True. idtac "@@THM %s". exact I. Qed.' % n)
        lines.append('Print Assumptions %s.' % n)
    lines.append('Goal True. idtac "@@END". exact I. Qed.')
    drv.write_text('\n'.join(lines) + '\n')
    rc, out = sh(['timeout', str(timeout), 'coqc'] + COQFLAGS + ['-w', '-all', str(drv)], cwd=COQ, timeout=timeout + 30)
    if rc != 0:
        for n in names:
            res['broken'].append((n, 'assumption audit failed: ' + out.strip()[-300:]))
        return res
    chunks = re.split(r'@@THM (\S+)', out)
    for i in range(1, len(chunks), 2):
        name, body = chunks[i], chunks[i + 1].split('@@END')[0]
        if 'Closed under the global context' in body:
            ax = []
        else:
            ax = [t for t in re.findall(r'^([A-Za-z_][A-Za-z0-9_\.\']*)', body, flags=re.M)
                  if t not in ('Axioms', 'Closed')]
        res['axioms'][name] = ax
        bad = [a for a in ax if a not in ALLOWED_AXIOMS]
        if bad:
            res['broken'].append((name, 'depends on axioms outside the allow-list: %s' % bad))
        else:
            res['discharged'].append(name)
    for n in names:
        if n not in res['axioms']:
            res['broken'].append((n, 'no Print Assumptions output'))
    return res


def coqchk_property(pid, timeout=1500):
    """independent re-check of Properties/<pid>.vo and everything it depends on; returns (ok, axioms, tail)"""
    rc, out = sh(['bash', '-c', 'ulimit -s unlimited 2>/dev/null; exec timeout %d coqchk -silent -o -Q %s PB PB.Properties.%s'
                  % (timeout, COQ, pid)], cwd=COQ, timeout=timeout + 60)
    ok = (rc == 0 and 'relying on type-in-type: <none>' in out and 'unsafe (co)fixpoints: <none>' in out
          and 'positivity is assumed: <none>' in out)
    ax = []
    if '* Axioms:' in out:
        blk = out.split('* Axioms:')[1].split('* Constants/Inductives')[0]
        ax = [l.strip() for l in blk.splitlines() if l.strip() and l.strip() != '<none>']
    return ok, ax, out[-600:]


VERDICT_RE = re.compile(r'=\s*V\s+(\(?-?\d+\)?)\s+(true|false)\s+(\S+)\s+(\(?-?\d+\)?)\s*:\s*verdict', re.S)


def eval_cases(pid, requires, exprs, shard=150, jobs=16, timeout=900, opens=()):
    """exprs: list of (case_index, coq_expr : bool*float).  Writes gen/cases_<pid>_<i>.v, runs coqc in
    parallel, returns ({index: (ok, dev)}, errors list)."""
    GEN.mkdir(exist_ok=True)
    for old in GEN.glob('cases_%s_*' % pid):
        old.unlink()
    files = []
    for s in range(0, len(exprs), shard):
        part = exprs[s:s + shard]
        f = GEN / ('cases_%s_%d.v' % (pid, s // shard))
        hdr = ['From Coq Require Import ZArith List PrimFloat.', 'Import ListNotations.',
               'From PB Require Import Ops FloatFun Run.Common %s.' % ' '.join(requires)]
        hdr += ['Open Scope %s.' % o for o in opens]
        body = []
        for idx, e in part:
            body.append('Eval vm_compute in (mkV %d (%s)).' % (idx, e))
        f.write_text('\n'.join(hdr + body) + '\n')
        files.append(f)
    results, errors = {}, []

    def run(f):
        try:
            rc, out = sh(['bash', '-c', 'ulimit -s unlimited 2>/dev/null; exec timeout %d coqc %s -w -all %s'
                          % (timeout, ' '.join(COQFLAGS), f)], cwd=COQ, timeout=timeout + 60)
        except subprocess.TimeoutExpired:
            return f, 124, 'timeout'
        return f, rc, out

    with ThreadPoolExecutor(max_workers=jobs) as ex:
        for f, rc, out in ex.map(run, files):
            for m in VERDICT_RE.finditer(out):
                idx = int(m.group(1).strip('()'))
                results[idx] = (m.group(2) == 'true', m.group(3).replace('%float', '').strip('()'))
            if rc != 0:
                errors.append('%s: coqc exit %s: %s' % (f.name, rc, out.strip()[-600:]))
    return results, errors


# ----------------------------------------------------------------------------- same values, different container
def relayouts(a):
    """[(tag, array)]: arrays with exactly the values of `a` in other memory layouts / flag settings.  A function of the
    VALUES of its arguments (every property quantifies over values) must return the same result for each of them."""
    import numpy as np
    a = np.asarray(a)
    out = []
    if a.ndim >= 2:
        out.append(('fortran', np.asfortranarray(a)))
        t = np.ascontiguousarray(np.swapaxes(a, -1, -2))
        out.append(('transposed-view', np.swapaxes(t, -1, -2)))            # non-contiguous view, same values
    if a.ndim >= 1 and a.shape[-1] >= 1:
        big = np.zeros(a.shape[:-1] + (2 * a.shape[-1],), dtype=a.dtype)
        big[..., ::2] = a
        out.append(('strided-view', big[..., ::2]))
    w = np.array(a, copy=True)
    w.setflags(write=True)
    out.append(('writeable-copy', w))
    return out


def recasts(a, allow=('int', 'real', 'single')):
    """[(tag, array)]: value-preserving dtype changes: integer typed when every entry is a (small) integer, real typed
    when the imaginary part is identically zero"""
    import numpy as np
    a = np.asarray(a)
    out = []
    if a.dtype.kind in 'iu' and a.size and 'int' in allow:
        m = int(np.abs(a).max())
        for tag, dt, lim in (('int8', np.int8, 2 ** 7), ('int16', np.int16, 2 ** 15), ('int32', np.int32, 2 ** 31),
                             ('int64', np.int64, 2 ** 63)):
            if m < lim and a.dtype != dt:
                out.append((tag, a.astype(dt)))
        return out          # unsigned types are not offered: index / score arithmetic on them is outside every property's domain
    if a.dtype.kind in 'fc' and a.size and np.all(np.isfinite(a)):
        re = a.real if a.dtype.kind == 'c' else a
        if a.dtype.kind == 'c' and 'real' in allow and not np.any(a.imag):
            out.append(('real-dtype', np.array(re)))
        if 'int' in allow and (a.dtype.kind == 'f' or not np.any(a.imag)) and np.all(re == np.round(re)):
            m = np.abs(re).max()
            if m < 2 ** 31:
                out.append(('int32', re.astype(np.int32)))
                out.append(('int64', re.astype(np.int64)))
            # no int8 / int16 here: NumPy evaluates log / sqrt / divide of such arrays in half / single precision, which
            # is a loss of accuracy chosen by the caller's dtype, not a property of the library
    return out


def other_values(a):
    """an array of the same shape / dtype holding different but equally valid values (all axes reversed, halved):
    reversal keeps Hermitian PSD stacks, masks in [0, 1], unit modulus etc."""
    import numpy as np
    a = np.asarray(a)
    b = a[tuple(slice(None, None, -1) for _ in range(a.ndim))]
    if a.dtype.kind in 'fc':
        b = b * 0.5
    return np.array(b, dtype=a.dtype, copy=True)


def stale_probe(fn, arrays):
    """call fn once on buffers holding OTHER values, refresh the very same buffers in place with the real values and call
    again: the second result must be the result for the real values (identity-keyed caches, results aliasing inputs,
    inputs modified by the first call all surface here).  Returns the second result."""
    import numpy as np
    bufs = [None if a is None else other_values(a) for a in arrays]
    try:
        fn(*bufs)
    except Exception:
        pass                                  # the warm-up values may be refused; the refreshed call is what counts
    for b, a in zip(bufs, arrays):
        if b is not None:
            b[...] = a
    return fn(*bufs)


def container_variants(fn, arrays, expect, close, which=('layout', 'stale'), recast_allow=(), recast_args=None):
    """fn(*arrays) was verified to give `expect`.  Re-run it with the same VALUES in other containers and report the
    first variant whose result is not `close` to expect (or which raises).  Returns failure text or None."""
    import numpy as np
    def run(tag, args):
        try:
            r = fn(*args)
        except Exception as e:
            return '%s: raised %s: %s' % (tag, type(e).__name__, str(e)[:160])
        try:
            ok = close(r, expect)
        except Exception as e:
            ok = False
        return None if ok else '%s: result differs from the result for the same values in a plain C-ordered array' % tag
    if 'layout' in which:
        for i, a in enumerate(arrays):
            if a is None:
                continue
            for tag, v in relayouts(a):
                args = list(arrays)
                args[i] = v
                f = run('argument %d as %s' % (i, tag), args)
                if f:
                    return f
    if recast_allow:
        for i, a in enumerate(arrays):
            if a is None or (recast_args is not None and i not in recast_args):
                continue
            for tag, v in recasts(a, recast_allow):
                args = list(arrays)
                args[i] = v
                f = run('argument %d as %s' % (i, tag), args)
                if f:
                    return f
    if 'stale' in which:
        try:
            r = stale_probe(fn, arrays)
            if not close(r, expect):
                return ('second call on the same buffers after they were refreshed in place returns a result for other '
                        '(stale) values')
        except Exception as e:
            return 'second call on refreshed buffers raised %s: %s' % (type(e).__name__, str(e)[:160])
    return None


def deliberate_exception(e):
    """an exception the library (or sklearn on its behalf) raises ON PURPOSE - an 'explicit exception' in the sense of
    the properties - as opposed to one that escapes from NumPy because shapes or types went wrong"""
    import numpy as np
    if isinstance(e, (AssertionError, NotImplementedError, np.linalg.LinAlgError, FloatingPointError)):
        return True
    if isinstance(e, ValueError):
        msg = str(e)
        accidental = ('could not be broadcast', 'shapes', 'mismatch', 'dimension', 'axis', 'cannot reshape', 'read-only',
                      'setting an array element', 'too many values', 'not enough values', 'einstein', 'operand')
        return not any(a in msg for a in accidental)
    return False


# --------------------------------------------------------------------------- cases / verdict
class Case:
    """One generated case.
    name        short label (entry point / option summary)
    coq         Coq expression of type (bool * float): model-vs-implementation agreement (or None)
    pred_fail   None, or text: the property's own predicate FAILED on the implementation for this input
    key         finding key (entry point + predicate + input class) used to match known findings
    nontrivial  whether the case meets the property's non-triviality rule
    digest      hash of canonicalised input
    sample      small summary for the evidence file
    replay      dict that <module>.replay(dict) can re-run
    raised      exception text if the implementation raised an accepted, explicit exception
    """
    def __init__(self, name, coq=None, pred_fail=None, key=None, nontrivial=True, digest_=None,
                 sample=None, replay=None, raised=None, kind='main'):
        self.name, self.coq, self.pred_fail, self.key = name, coq, pred_fail, key
        self.nontrivial, self.digest, self.sample, self.replay = nontrivial, digest_, sample, replay
        self.raised, self.kind = raised, kind


def load_known():
    if KNOWN.exists():
        return json.loads(KNOWN.read_text())
    return {'known': [], 'fixed': []}


def known_match(pid, key):
    for e in load_known().get('known', []):
        if e.get('property') == pid and key is not None and e.get('key') == key:
            return e
    return None


_REPLAY_COUNTER = 0


def write_replay(pid, tier, seed, payload):
    d = VERIF / 'replays'
    d.mkdir(exist_ok=True)
    global _REPLAY_COUNTER
    _REPLAY_COUNTER += 1
    p = d / ('%s_%s_%d_%d_%d.json' % (pid, tier, seed, int(time.time() * 1000) % 10 ** 9, _REPLAY_COUNTER))
    payload = dict(payload)
    payload['property'] = pid
    payload['tier'] = tier
    payload['seed'] = seed
    p.write_text(json.dumps(jsonable(payload), indent=1))
    return p


def tier_and_seed(argv_tier=None, argv_seed=None):
    tier = argv_tier or os.environ.get('VERIF_TIER') or 'quick'
    seed = argv_seed if argv_seed is not None else int(os.environ.get('VERIF_SEED', '20261001'))
    return tier, seed


TRUSTED_BASE = [
    'Coq 8.16.1 kernel (coqc), vm_compute for evaluating the executable model; no native_compute',
    'standard-library axioms only, as printed by Print Assumptions under each property theorem '
    '(allow-list: ClassicalDedekindReals.sig_forall_dec, sig_not_dec, '
    'FunctionalExtensionality.functional_extensionality_dep, Classical_Prop.classic)',
    'hand-written Gallina model (coq/Model/*.v) of the pb_bss routines named in DESIGN.md section 6; '
    'tie to /repo = correspondence check evaluated inside Coq on generated cases (differential testing, not proof)',
    'LAPACK/SciPy leaves (eigh, solve, cholesky, hyp1f1, ive, interp1d, least_squares) are oracles: '
    'theorems assume their written contract, the harness evaluates the contract residual per case',
    'binary64 instance FO (PrimFloat) incl. expF/lnF is executed but not proved equal to the real-number instance RO; '
    'the gap is the stated tolerance',
    'Python harness: generators, exact hex-float transport, parsing of coqc output, property predicates used for the failing-input search',
    'no extraction, no Extract Constant / Extract Inductive directives',
]


def run_property(mod, tier, seed):
    """Generic driver.  mod provides: PID, REQUIRES, RULE, cases(rng, tier) -> [Case],
    optional search(rng, tier, hints) -> [Case with pred_fail], optional TOL text."""
    import numpy as np
    t0 = time.time()
    pid = mod.PID
    WORK.mkdir(exist_ok=True)
    lines = []          # VIOLATION / KNOWN-FINDING lines
    violations = 0
    # 1. proof obligations
    ok, out = build_for(['Properties/%s.v' % pid] + ['%s.v' % r.replace('.', '/') for r in mod.REQUIRES])
    audit = audit_property(pid) if ok else {'theorems': theorem_names(pid), 'discharged': [],
                                            'broken': [('build', out[-800:])], 'axioms': {}}
    chk = None
    if tier == 'thorough' and ok and not audit['broken']:
        # independent checker over the property file and all it depends on (1-2 min)
        c_ok, c_ax, c_tail = coqchk_property(pid)
        chk = {'ok': c_ok, 'axioms': c_ax}
        bad_ax = [a for a in c_ax if a.replace('Coq.Logic.', '').replace('Coq.Reals.', '') not in ALLOWED_AXIOMS
                  and a.split('.', 2)[-1] not in ALLOWED_AXIOMS and not any(a.endswith(x) for x in ALLOWED_AXIOMS)]
        if not c_ok:
            audit['broken'].append(('coqchk', 'coqchk failed: ' + c_tail))
        elif bad_ax:
            audit['broken'].append(('coqchk', 'coqchk reports axioms outside the allow-list: %s' % bad_ax))
    # 2. correspondence + predicates on the implementation
    import_repo()
    rng = np.random.default_rng(seed)
    try:
        cases = list(mod.cases(rng, tier))
        gen_error = None
    except Exception:
        cases, gen_error = [], traceback.format_exc()
    exprs = [(i, c.coq) for i, c in enumerate(cases) if c.coq is not None]
    results, errors = eval_cases(pid, mod.REQUIRES, exprs, shard=getattr(mod, 'SHARD', 150),
                                 opens=getattr(mod, 'OPENS', ())) if exprs else ({}, [])
    disagree = [i for i, _ in exprs if i in results and not results[i][0]]
    missing = [i for i, _ in exprs if i not in results]
    pred_fail = [i for i, c in enumerate(cases) if c.pred_fail]
    # 3. verdict
    reported_keys = set()

    def report_hit(c, origin):
        nonlocal violations
        e = known_match(pid, c.key)
        if e is not None:
            if c.key not in reported_keys:
                lines.append('KNOWN-FINDING: property=%s %s' % (pid, e.get('text', c.key)))
                reported_keys.add(c.key)
            return
        if c.key in reported_keys:
            return
        reported_keys.add(c.key)
        p = write_replay(pid, tier, seed, {'kind': 'failing-input', 'origin': origin, 'case': c.name,
                                           'key': c.key, 'what_fails': c.pred_fail, 'replay': c.replay})
        lines.append('VIOLATION property=%s replay=%s' % (pid, p))
        violations += 1

    for i in pred_fail:
        report_hit(cases[i], 'predicate on generated case')
    broken = []
    for n, why in audit['broken']:
        broken.append({'theorem': n, 'why': why})
    for i in disagree:
        if not cases[i].pred_fail:
            broken.append({'correspondence': cases[i].name, 'case_index': i, 'deviation': results[i][1],
                           'key': cases[i].key, 'replay': cases[i].replay})
    for i in missing:
        broken.append({'correspondence': cases[i].name, 'case_index': i, 'why': 'no verdict from coqc'})
    for e in errors:
        broken.append({'coqc': e})
    if gen_error:
        broken.append({'generator': gen_error[-1500:]})
    # disagreements that are explained by a known finding (same key) are reported as such, not as breaks
    unexplained = []
    for b in broken:
        k = b.get('key')
        e = known_match(pid, k) if k else None
        if e is not None:
            if k not in reported_keys:
                lines.append('KNOWN-FINDING: property=%s %s' % (pid, e.get('text', k)))
                reported_keys.add(k)
        else:
            unexplained.append(b)
    searched = 0
    if unexplained and violations == 0:
        hits = []
        if hasattr(mod, 'search'):
            try:
                hits = list(mod.search(np.random.default_rng(seed + 1), tier, unexplained))
            except Exception:
                hits = []
                unexplained.append({'search': traceback.format_exc()[-1000:]})
        searched = len(hits)
        new_hits = [h for h in hits if h.pred_fail and known_match(pid, h.key) is None]
        if new_hits:
            report_hit(new_hits[0], 'search after broken obligation/correspondence')
        else:
            p = write_replay(pid, tier, seed, {'kind': 'no-failing-input-found', 'broken': unexplained[:20]})
            lines.append('VIOLATION property=%s replay=%s no-failing-input-found' % (pid, p))
            violations += 1
    # 4. evidence
    nontriv = {c.digest for c in cases if c.nontrivial and c.digest}
    ev = {
        'property_id': pid, 'tier': tier, 'seed': int(seed), 'level': 'proof',
        'coverage': {
            'obligations': len(audit['theorems']),
            'discharged': len(audit['discharged']),
            'checker_cmd': 'coqc -Q coq PB coq/Properties/%s.v (fresh) + Print Assumptions per theorem; '
                           'full build: make -C coq' % pid,
            'trusted_base': TRUSTED_BASE,
            'theorems': audit['theorems'],
            'axioms_per_theorem': audit['axioms'],
            'coqchk': chk if chk is not None else 'not run in the quick tier (thorough runs coqchk -o over the property file)',
            'evaluations': len(cases),
            'model_vs_impl_compared': len(exprs),
            'model_vs_impl_agree': len([i for i, _ in exprs if i in results and results[i][0]]),
            'model_vs_impl_disagree': len(disagree),
            'predicate_failures_on_impl': len(pred_fail),
            'impl_raised_explicit_exception': len([c for c in cases if c.raised]),
            'traces_validated_against_impl': len([i for i, _ in exprs if i in results and results[i][0]]),
            'distinct_nontrivial': len(nontriv),
            'rule': mod.RULE,
            'case_kinds': kinds_hist(cases),
            'samples': [c.sample for c in cases if c.sample is not None][:3] or [{'note': 'no cases'}],
            'search_cases_after_break': searched,
            'not_proved': getattr(mod, 'NOT_PROVED', ''),
        },
        'assumptions': getattr(mod, 'ASSUMPTIONS', []),
        'wall_s': round(time.time() - t0, 2),
        'violations': violations,
    }
    EVIDENCE.mkdir(exist_ok=True)
    (EVIDENCE / ('%s.json' % pid)).write_text(json.dumps(ev, indent=1, default=str))
    for b in unexplained[:8]:
        print('BROKEN: ' + json.dumps(jsonable({k: v for k, v in b.items() if k != 'replay'}), default=str)[:600])
    for ln in lines:
        print(ln)
    print('%s tier=%s seed=%d obligations=%d discharged=%d cases=%d compared=%d disagree=%d pred_fail=%d '
          'nontrivial=%d wall=%.1fs' % (pid, tier, seed, len(audit['theorems']), len(audit['discharged']),
                                        len(cases), len(exprs), len(disagree), len(pred_fail), len(nontriv),
                                        time.time() - t0))
    return 1 if violations else 0


def kinds_hist(cases):
    h = {}
    for c in cases:
        h[c.kind] = h.get(c.kind, 0) + 1
    return h
